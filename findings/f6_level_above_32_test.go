package snap

// Demonstration of known finding F6 (C06): a tile matrix id whose pixel level (id + log2(tile width) + 4) exceeds 32
// makes morton.MustToZ panic inside SnapPolygon ("cannot make Z out of ..."), for a polygon well inside the grid.
// The test itself always passes; it prints GVC-FINDING-PRESENT when the defect shows, GVC-FINDING-ABSENT otherwise.

import (
	"fmt"
	"testing"

	"github.com/go-spatial/geom"
	"github.com/pdok/texel/tms20"
)

func TestGvcFindingF6(t *testing.T) {
	tms, err := tms20.LoadEmbeddedTileMatrixSet("WebMercatorQuad")
	if err != nil {
		t.Fatal(err)
	}
	poly := geom.Polygon{{{1000, 1000}, {1010, 1000}, {1010, 1010}}}
	func() {
		defer func() {
			if r := recover(); r != nil {
				fmt.Printf("GVC-FINDING-PRESENT F6 SnapPolygon(%v, WebMercatorQuad, [21]) panicked: %v\n", poly, r)
			}
		}()
		res := SnapPolygon(poly, tms, []tms20.TMID{21}, Config{})
		fmt.Printf("GVC-FINDING-ABSENT F6 result has %d entries\n", len(res))
	}()
}
