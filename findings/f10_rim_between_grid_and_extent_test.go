package snap

// Demonstration of known finding F10 (C06): on a tile matrix set whose extent is not a whole number of deepest pixels
// the pixel grid is narrower than the extent by the deviation the tool reports at validation (span - 2^level * integer
// pixel size; 1.9 cm for WebMercatorQuad id 17). A polygon with a vertex in that strip lies inside the tile matrix set's
// extent, yet InsertPoint rejects it as "outside the grid" and SnapPolygon panics (without IgnoreOutsideGrid).
// The test itself always passes; it prints GVC-FINDING-PRESENT while the defect shows.

import (
	"fmt"
	"testing"

	"github.com/go-spatial/geom"
	"github.com/pdok/texel/tms20"
)

func TestGvcFindingF10(t *testing.T) {
	tms, err := tms20.LoadEmbeddedTileMatrixSet("WebMercatorQuad")
	if err != nil {
		t.Fatal(err)
	}
	_, tr, err := tms.MatrixBoundingBox(0)
	if err != nil {
		t.Fatal(err)
	}
	x := tr[0] - 0.01 // one centimetre inside the right edge of the extent
	poly := geom.Polygon{{{x - 10, 100}, {x, 100}, {x, 110}}}
	func() {
		defer func() {
			if r := recover(); r != nil {
				fmt.Printf("GVC-FINDING-PRESENT F10 SnapPolygon(triangle with a vertex at x = maxx - 0.01, WebMercatorQuad, [17]) panicked: %v\n", r)
			}
		}()
		res := SnapPolygon(poly, tms, []tms20.TMID{17}, Config{})
		fmt.Printf("GVC-FINDING-ABSENT F10 result has %d entries\n", len(res))
	}()
}
