package snap

// Demonstration of finding F4 (C05, named in the property statement): the repeated-vertex lookup of splitRing
// converted a ring vertex (float) back to the integer key of the hit map; on grids whose pixel centres do not survive
// that round trip (WebMercatorQuad here) the lookup missed, the ring was not split at a vertex it passes twice, and a
// returned ring visited that vertex twice. The polygon below revisits one input vertex and is well inside the grid.
// The test itself always passes; it prints GVC-FINDING-PRESENT while a returned ring visits a vertex twice.

import (
	"fmt"
	"io"
	"log"
	"os"
	"testing"

	"github.com/go-spatial/geom"
	"github.com/pdok/texel/tms20"
)

func TestGvcFindingF4(t *testing.T) {
	log.SetOutput(io.Discard)
	defer log.SetOutput(os.Stderr)
	tms, err := tms20.LoadEmbeddedTileMatrixSet("WebMercatorQuad")
	if err != nil {
		t.Fatal(err)
	}
	at := func(i, j int) [2]float64 { return [2]float64{550000 + 0.3*float64(i), 6850000 + 0.3*float64(j)} }
	ring := [][2]float64{at(6, 5), at(6, 0), at(2, 1), at(1, 7), at(1, 4), at(2, 4), at(0, 2), at(1, 7), at(3, 3)}
	res := SnapPolygon(geom.Polygon{ring}, tms, []tms20.TMID{17}, Config{})
	for id, polys := range res {
		for _, p := range polys {
			for ri, r := range p {
				seen := map[[2]float64]bool{}
				for _, v := range r {
					if seen[v] {
						fmt.Printf("GVC-FINDING-PRESENT F4 SnapPolygon(9-vertex spiky polygon near (550000, 6850000), WebMercatorQuad, [17]): ring %d of a polygon for id %d visits %v twice\n", ri, id, v)
						return
					}
					seen[v] = true
				}
			}
		}
	}
	fmt.Printf("GVC-FINDING-ABSENT F4\n")
}
