package snap

// Demonstration of finding F9 (C06): for some vertex sequences kmpDeduplicate marks overlapping ranges for removal and
// mapslicehelp.RemoveSequences then slices s[keepFrom:keepTo] with keepFrom > keepTo: SnapPolygon panics
// ("slice bounds out of range [24:23]") for a polygon that lies well inside the grid. The ring below (used as shell and as hole, in both directions) has 36 vertices on
// three pixel centres of a 16x16 pixel grid (found by a pattern-directed random search over rings of repeated and
// reversed short words). The test itself always passes; it prints GVC-FINDING-PRESENT while the defect shows.

import (
	"fmt"
	"strconv"
	"testing"

	"github.com/go-spatial/geom"
	"github.com/pdok/texel/tms20"
)

type gvcF9CRS struct{}

func (gvcF9CRS) Description() string { return "" }
func (gvcF9CRS) Authority() string   { return "" }
func (gvcF9CRS) Version() string     { return "" }
func (gvcF9CRS) Code() string        { return "" }

func TestGvcFindingF9(t *testing.T) {
	origin := tms20.TwoDPoint([2]float64{0, 0})
	tms := tms20.TileMatrixSet{CRS: gvcF9CRS{}, OrderedAxes: []string{"X", "Y"}, TileMatrices: map[tms20.TMID]tms20.TileMatrix{
		0: {ID: strconv.Itoa(0), ScaleDenominator: 16 / tms20.StandardizedRenderingPixelSize, CellSize: 16, CornerOfOrigin: tms20.BottomLeft,
			PointOfOrigin: &origin, TileWidth: 1, TileHeight: 1, MatrixWidth: 1, MatrixHeight: 1}}}
	// level = 0 + log2(1) + 4: 16 x 16 pixels of size 1 on [0,16) x [0,16); a, b, c are pixel centres
	a, b, c := [2]float64{0.5, 0.5}, [2]float64{1.5, 0.5}, [2]float64{1.5, 1.5}
	ring := [][2]float64{a, b, c, a, b, a, c, b, a, b, a, c, b, a, b, a, c, b, a, b, a, c, b, a, c, b, a, b, c, a, b, a, b, c, a, b}
	rev := make([][2]float64, len(ring))
	for i := range ring {
		rev[len(ring)-1-i] = ring[i]
	}
	present := false
	shell := [][2]float64{{0.5, 0.5}, {12.5, 0.5}, {12.5, 12.5}, {0.5, 12.5}}
	for _, rg := range []geom.Polygon{{ring}, {rev}, {shell, ring}, {shell, rev}} {
		func() {
			defer func() {
				if r := recover(); r != nil && !present {
					present = true
					fmt.Printf("GVC-FINDING-PRESENT F9 SnapPolygon on a 36-vertex ring over three pixel centres panicked: %v\n", r)
				}
			}()
			SnapPolygon(rg, tms, []tms20.TMID{0}, Config{})
		}()
	}
	if !present {
		fmt.Printf("GVC-FINDING-ABSENT F9\n")
	}
}
