package main

// Finding F8 (C14): a tile matrix set whose matrix 0 carries an EMPTY variableMatrixWidths list passes IsQuadTree
// (which tests len(...) != 0) but makes MatrixSize panic (which tests != nil), so validation panics instead of
// returning. Found as the undischarged precondition main.validateTileMatrixSet.call.pointindex.DeviationStats@1.pre.1.

import (
	"strings"
	"testing"

	"github.com/pdok/texel/tms20"
)

func TestF8EmptyVariableWidths(t *testing.T) {
	tms, err := tms20.LoadEmbeddedTileMatrixSet("NetherlandsRDNewQuad")
	if err != nil {
		t.Fatal(err)
	}
	data, err := tms.MarshalJSON()
	if err != nil {
		t.Fatal(err)
	}
	// single-field perturbation of the document: an empty list of variable matrix widths on the first matrix
	doc := strings.Replace(string(data), `"matrixHeight":1`, `"matrixHeight":1,"variableMatrixWidths":[]`, 1)
	if doc == string(data) {
		t.Skip("document layout changed: " + string(data)[:300])
	}
	var tms2 tms20.TileMatrixSet
	if err := tms2.UnmarshalJSON([]byte(doc)); err != nil {
		t.Fatalf("decode: %v", err)
	}
	t.Logf("matrix 0 variableMatrixWidths: nil=%v len=%d", tms2.TileMatrices[0].VariableMatrixWidths == nil, len(tms2.TileMatrices[0].VariableMatrixWidths))
	defer func() {
		if r := recover(); r != nil {
			t.Errorf("validateTileMatrixSet panicked: %v", r)
		}
	}()
	t.Logf("validate: %v", validateTileMatrixSet(tms2, []tms20.TMID{0}))
}
