package main

// Finding F7 (C14): before the repair validateTileMatrixSet panicked ("variable matrix widths not supported")
// instead of rejecting CDB1GlobalGrid, because DeviationStats ran before IsQuadTree.
// Run: go test -overlay <overlay placing this file at /repo/zz_f7_test.go> -vet=off -run TestF7 .

import (
	"testing"

	"github.com/pdok/texel/tms20"
)

func TestF7ValidateNeverPanics(t *testing.T) {
	for _, id := range []string{"CDB1GlobalGrid", "GNOSISGlobalGrid", "NetherlandsRDNewQuad"} {
		tms, err := tms20.LoadEmbeddedTileMatrixSet(id)
		if err != nil {
			t.Fatal(err)
		}
		func() {
			defer func() {
				if r := recover(); r != nil {
					t.Errorf("validateTileMatrixSet(%s) panicked: %v", id, r)
				}
			}()
			err := validateTileMatrixSet(tms, []tms20.TMID{0})
			t.Logf("%s: err=%v", id, err)
		}()
	}
}
