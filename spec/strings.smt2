; Strings are opaque values; the only operations with a meaning are equality and the (assumed) parse of an integer.

(declare-fun atoi (String) Int)
(declare-fun atoiOK (String) Bool)
