; Geometric specification for C02 (written from the property statement, independently of the code).
; {M} is the coordinate sort: Real in mode real (int64 ordinates relaxed to reals), Int in mode int.
; sorts: A2_M A4_M A2_A2_M
; inPixel(p, e): the half-open square that owns its left and bottom sides but not its right and top sides.
(define-fun inPixelXY ((x Real) (y Real) (e A4_M)) Bool
  (and (<= (to_real_m (A4_M_e0 e)) x) (< x (to_real_m (A4_M_e2 e))) (<= (to_real_m (A4_M_e1 e)) y) (< y (to_real_m (A4_M_e3 e)))))
; the point of the closed segment l at parameter t
(define-fun segX ((l A2_A2_M) (t Real)) Real (+ (to_real_m (A2_M_e0 (A2_A2_M_e0 l))) (* t (- (to_real_m (A2_M_e0 (A2_A2_M_e1 l))) (to_real_m (A2_M_e0 (A2_A2_M_e0 l)))))))
(define-fun segY ((l A2_A2_M) (t Real)) Real (+ (to_real_m (A2_M_e1 (A2_A2_M_e0 l))) (* t (- (to_real_m (A2_M_e1 (A2_A2_M_e1 l))) (to_real_m (A2_M_e1 (A2_A2_M_e0 l)))))))
; meetsAt(l, e, t): the closed segment l is inside the half-open pixel e at parameter t in [0, 1].
; "the closed edge meets the pixel" is: exists t. meetsAt(l, e, t)
(define-fun meetsAt ((l A2_A2_M) (e A4_M) (t Real)) Bool
  (and (<= 0.0 t) (<= t 1.0) (inPixelXY (segX l t) (segY l t) e)))
; meets(l, e) := exists t. meetsAt(l, e, t), introduced by its two defining axioms (pointindex.meets_def1/2 in the
; contract file): meets => meetsAt at the chosen parameter meetsT, and meetsAt at any t => meets.
(declare-fun meets (A2_A2_M A4_M) Bool)
(declare-fun meetsT (A2_A2_M A4_M) Real)
