; Membership of an integer in an integer slice without an existential: idxOf is a choice function
; (lemma lists.idxOf_def: if some position holds k then idxOf(s, k) is such a position).
; sorts: Sl_Int
(declare-fun idxOf (Sl_Int Int) Int)
; the maximum of a non-empty integer slice (slices.Max), as a function of the slice
(declare-fun sliceMax (Sl_Int) Int)
