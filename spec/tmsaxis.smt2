; Axis order from the ordered-axes list: decided by trusted code (regular expressions); the contracts only need that
; the verdict is a function of the list. (The verdict from the CRS is defined in tms20/contracts_verif.go.)
; sorts: Iface Sl_String
(declare-fun latlonAxes (Sl_String) Bool)
(declare-fun axesErr (Sl_String) Bool)
