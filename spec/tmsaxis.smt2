; Axis order of a tile matrix set: decided by trusted library code (EPSG table, regular expressions). The contracts
; only need that the verdict is a function of the CRS / of the ordered-axes list.
; sorts: Iface Sl_String
(declare-fun latlonCRS (Iface) Bool)
(declare-fun crsErr (Iface) Bool)
(declare-fun latlonAxes (Sl_String) Bool)
(declare-fun axesErr (Sl_String) Bool)
