; Integer arithmetic helpers (mathematical integers).
; tdiv/tmod: Go's integer division truncates toward zero; SMT-LIB div/mod are Euclidean.
(define-fun tdiv ((a Int) (b Int)) Int
  (ite (>= a 0) (ite (> b 0) (div a b) (- (div a (- b))))
                (ite (> b 0) (- (div (- a) b)) (div (- a) (- b)))))
(define-fun tmod ((a Int) (b Int)) Int (- a (* b (tdiv a b))))
; floor division for b > 0
(define-fun fdiv ((a Int) (b Int)) Int (div a b))
; pow2(n) = 1 << n on a 64-bit unsigned word (0 for n >= 64). Uninterpreted here: what client proofs know about it are
; instances of the lemmas pow2_* (mathhelp/contracts_verif.go), which are proved against the spelled-out definition in
; arithdef.smt2. (A defined pow2 would be expanded into a 64-way case split at every occurrence.)
(declare-fun pow2 (Int) Int)
; tm(a, b): the product a*b where a function is verified with opaque multiplication (contract flag opaquemul):
; uninterpreted, known only through lemma instances (the lemmas themselves are proved with ordinary multiplication).
(declare-fun tm (Int Int) Int)
; dv(a, b): the quotient a div b (rounding down for b > 0) in contract expressions of functions verified with opaque
; division (contract flag opaquediv): uninterpreted, known through lemma instances only.
(declare-fun dv (Int Int) Int)
(define-fun abs_int ((a Int)) Int (ite (>= a 0) a (- a)))
; truncation toward zero of a real (Go's float -> int conversion for values in range)
(define-fun trunc ((r Real)) Int (ite (>= r 0.0) (to_int r) (- (to_int (- r)))))
; math.Round: nearest integer, halves away from zero (as a real)
(define-fun roundHalfAway ((r Real)) Real
  (ite (>= r 0.0) (to_real (to_int (+ r 0.5))) (- (to_real (to_int (+ (- r) 0.5))))))
; rounding to 9 decimals as tms20.roundFloat(f, 9) does it
(define-fun round9 ((r Real)) Real (/ (roundHalfAway (* r 1000000000.0)) 1000000000.0))
; math.Log2 as an uninterpreted function of a real; the call site adds bracketing facts (exact on powers of two)
(declare-fun log2r (Real) Real)
