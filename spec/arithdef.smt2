; Integer arithmetic helpers (mathematical integers), with pow2 DEFINED: only for proving the pow2 lemmas.
; tdiv/tmod: Go's integer division truncates toward zero; SMT-LIB div/mod are Euclidean.
(define-fun tdiv ((a Int) (b Int)) Int
  (ite (>= a 0) (ite (> b 0) (div a b) (- (div a (- b))))
                (ite (> b 0) (- (div (- a) b)) (div (- a) (- b)))))
(define-fun tmod ((a Int) (b Int)) Int (- a (* b (tdiv a b))))
; floor division for b > 0
(define-fun fdiv ((a Int) (b Int)) Int (div a b))
; pow2(n) = 1 << n on a 64-bit unsigned word (0 for n >= 64), spelled out so that it is exact
(define-fun tm ((a Int) (b Int)) Int (* a b))
(define-fun dv ((a Int) (b Int)) Int (div a b))
(define-fun pow2 ((n Int)) Int (ite (= n 0) 1 (ite (= n 1) 2 (ite (= n 2) 4 (ite (= n 3) 8 (ite (= n 4) 16 (ite (= n 5) 32 (ite (= n 6) 64 (ite (= n 7) 128 (ite (= n 8) 256 (ite (= n 9) 512 (ite (= n 10) 1024 (ite (= n 11) 2048 (ite (= n 12) 4096 (ite (= n 13) 8192 (ite (= n 14) 16384 (ite (= n 15) 32768 (ite (= n 16) 65536 (ite (= n 17) 131072 (ite (= n 18) 262144 (ite (= n 19) 524288 (ite (= n 20) 1048576 (ite (= n 21) 2097152 (ite (= n 22) 4194304 (ite (= n 23) 8388608 (ite (= n 24) 16777216 (ite (= n 25) 33554432 (ite (= n 26) 67108864 (ite (= n 27) 134217728 (ite (= n 28) 268435456 (ite (= n 29) 536870912 (ite (= n 30) 1073741824 (ite (= n 31) 2147483648 (ite (= n 32) 4294967296 (ite (= n 33) 8589934592 (ite (= n 34) 17179869184 (ite (= n 35) 34359738368 (ite (= n 36) 68719476736 (ite (= n 37) 137438953472 (ite (= n 38) 274877906944 (ite (= n 39) 549755813888 (ite (= n 40) 1099511627776 (ite (= n 41) 2199023255552 (ite (= n 42) 4398046511104 (ite (= n 43) 8796093022208 (ite (= n 44) 17592186044416 (ite (= n 45) 35184372088832 (ite (= n 46) 70368744177664 (ite (= n 47) 140737488355328 (ite (= n 48) 281474976710656 (ite (= n 49) 562949953421312 (ite (= n 50) 1125899906842624 (ite (= n 51) 2251799813685248 (ite (= n 52) 4503599627370496 (ite (= n 53) 9007199254740992 (ite (= n 54) 18014398509481984 (ite (= n 55) 36028797018963968 (ite (= n 56) 72057594037927936 (ite (= n 57) 144115188075855872 (ite (= n 58) 288230376151711744 (ite (= n 59) 576460752303423488 (ite (= n 60) 1152921504606846976 (ite (= n 61) 2305843009213693952 (ite (= n 62) 4611686018427387904 (ite (= n 63) 9223372036854775808 0)))))))))))))))))))))))))))))))))))))))))))))))))))))))))))))))))
(define-fun abs_int ((a Int)) Int (ite (>= a 0) a (- a)))
; truncation toward zero of a real (Go's float -> int conversion for values in range)
(define-fun trunc ((r Real)) Int (ite (>= r 0.0) (to_int r) (- (to_int (- r)))))
; math.Round: nearest integer, halves away from zero (as a real)
(define-fun roundHalfAway ((r Real)) Real
  (ite (>= r 0.0) (to_real (to_int (+ r 0.5))) (- (to_real (to_int (+ (- r) 0.5))))))
; rounding to 9 decimals as tms20.roundFloat(f, 9) does it
(define-fun round9 ((r Real)) Real (/ (roundHalfAway (* r 1000000000.0)) 1000000000.0))
; math.Log2 as an uninterpreted function of a real; the call site adds bracketing facts (exact on powers of two)
(declare-fun log2r (Real) Real)
