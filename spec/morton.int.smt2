; requires: arith
; Integer-mode view of the Z-order specification: interleave / even_bits are uninterpreted here; what callers in
; integer mode know about them are the lemmas of package morton, which are proved over 64-bit bit-vectors and
; transferred to mathematical integers inside [0, 2^64) (statements use only ==, <=, >> by a constant).
(declare-fun interleave (Int Int) Int)
(declare-fun even_bits (Int) Int)
(define-fun fits32 ((x Int)) Bool (and (<= 0 x) (<= x 4294967295)))
; both are functions into 64-bit words
(assert (forall ((x Int)) (! (and (<= 0 (even_bits x)) (<= (even_bits x) 18446744073709551615)) :pattern ((even_bits x)))))
(assert (forall ((x Int) (y Int)) (! (and (<= 0 (interleave x y)) (<= (interleave x y) 18446744073709551615)) :pattern ((interleave x y)))))
