package main

// Assumed contracts of library functions (each use is listed in the evidence).

import (
	"math/big"
	"fmt"
	"go/types"

	"golang.org/x/tools/go/ssa"
)

func forallInt(v string, body Term) Term {
	return Term{S: fmt.Sprintf("(forall ((%s Int)) %s)", v, body.S), Sort: SBool}
}

func init() {
	// maps.Keys(m): a fresh slice holding every key exactly once, in an arbitrary order.
	// pos(k) is the index at which key k is found (ghost function, makes membership quantifier-friendly).
	keys := func(f *Frame, ns *nodeState, x *ssa.Call, fn *ssa.Function, args []Val) []Val {
		ex := f.ex
		vc := ex.vc
		m := ex.viewOf(ns.st, args[0])
		rt := fn.Signature.Results().At(0).Type()
		ss := vc.SortOf(rt)
		arr := vc.Declare(f.prefix+"keys_arr", ss.Fields[0].Sort)
		n := mpCard(m)
		ex.callSeq["maps.Keys"]++
		pos := fmt.Sprintf("keyspos!%d", ex.callSeq["maps.Keys"])
		vc.DeclareFun(pos, []*Sort{m.Sort.Key}, SInt)
		k := Atom("q_k", m.Sort.Key)
		i := Atom("q_i", SInt)
		pk := App(SInt, pos, k)
		vc.Assume(Term{S: fmt.Sprintf("(forall ((q_k %s)) %s)", m.Sort.Key.Name,
			Implies(Select(mpDom(m), k), And(leT(IntLit64(0, SInt), pk), ltT(pk, n), Eq(Select(arr, pk), k))).S), Sort: SBool}, "maps.Keys: every key occurs")
		facts := []Term{Select(mpDom(m), Select(arr, i)), Eq(App(SInt, pos, Select(arr, i)), i)}
		facts = append(facts, ex.rangeFacts(Select(arr, i), rt.Underlying().(*types.Slice).Elem(), 2)...)
		vc.Assume(forallInt("q_i", Implies(And(leT(IntLit64(0, SInt), i), ltT(i, n)), And(facts...))), "maps.Keys: only keys occur, each once")
		c := ex.newCell(f.prefix+"keys", ss, rt)
		ns.st[c] = MkData(ss, arr, n, TFalse)
		return []Val{{T: ns.st[c], Origin: &LV{Cell: c}}}
	}
	externals["golang.org/x/exp/maps.Keys"] = keys
	externals["maps.Keys"] = keys

	// slices.Sort(s): s becomes a sorted permutation of itself. perm/inv are ghost functions.
	externals["slices.Sort"] = func(f *Frame, ns *nodeState, x *ssa.Call, fn *ssa.Function, args []Val) []Val {
		ex := f.ex
		vc := ex.vc
		if args[0].Origin == nil {
			ex.fail("slices.Sort of a slice that is not held in a tracked location")
		}
		s := ex.viewOf(ns.st, args[0])
		if s.Sort.Elem.Kind != KInt {
			ex.fail("slices.Sort of non-integers")
		}
		old := slArr(s)
		n := slLen(s)
		na := vc.Declare(f.prefix+"sorted_arr", old.Sort)
		ex.callSeq["slices.Sort"]++
		perm := fmt.Sprintf("sortperm!%d", ex.callSeq["slices.Sort"])
		inv := fmt.Sprintf("sortinv!%d", ex.callSeq["slices.Sort"])
		vc.DeclareFun(perm, []*Sort{SInt}, SInt)
		vc.DeclareFun(inv, []*Sort{SInt}, SInt)
		i, j := Atom("q_i", SInt), Atom("q_j", SInt)
		in := func(t Term) Term { return And(leT(IntLit64(0, SInt), t), ltT(t, n)) }
		pat := func(vars string, body Term, pats ...Term) Term {
			ps := ""
			for _, p := range pats {
				ps += " :pattern (" + p.S + ")"
			}
			return Term{S: fmt.Sprintf("(forall (%s) (! %s%s))", vars, body.S, ps), Sort: SBool}
		}
		vc.Assume(pat("(q_i Int) (q_j Int)", Implies(And(leT(IntLit64(0, SInt), i), ltT(i, j), ltT(j, n)), leT(Select(na, i), Select(na, j))), Term{S: Select(na, i).S + " " + Select(na, j).S}), "slices.Sort: sorted")
		pi := App(SInt, perm, i)
		vc.AssumeHeavy(pat("(q_i Int)", Implies(in(i), And(in(pi), Eq(Select(na, i), Select(old, pi)), Eq(App(SInt, inv, pi), i))), Select(na, i), pi), "slices.Sort: permutation")
		ij := App(SInt, inv, j)
		vc.AssumeHeavy(pat("(q_j Int)", Implies(in(j), And(in(ij), Eq(App(SInt, perm, ij), j), Eq(Select(na, ij), Select(old, j)))), Select(old, j), ij), "slices.Sort: permutation (inverse)")
		ex.storeLV(ns.st, args[0].Origin, WithField(s, 0, na))
		return nil
	}

	// slices.Reverse(s): s[i] becomes what s[len(s)-1-i] was; the length and everything beyond it are unchanged.
	externals["slices.Reverse"] = func(f *Frame, ns *nodeState, x *ssa.Call, fn *ssa.Function, args []Val) []Val {
		ex := f.ex
		vc := ex.vc
		if args[0].Origin == nil {
			ex.fail("slices.Reverse of a slice that is not held in a tracked location")
		}
		s := ex.viewOf(ns.st, args[0])
		old := slArr(s)
		n := slLen(s)
		ex.callSeq["slices.Reverse"]++
		na := vc.Declare(fmt.Sprintf("%sreversed_arr!%d", f.prefix, ex.callSeq["slices.Reverse"]), old.Sort)
		j := Atom("q_j", SInt)
		in := And(leT(IntLit64(0, SInt), j), ltT(j, n))
		mirror := Term{S: fmt.Sprintf("(- (- %s 1) q_j)", n.S), Sort: SInt}
		ax := Ite(in, Eq(Select(na, j), Select(old, mirror)), Eq(Select(na, j), Select(old, j)))
		vc.Assume(Term{S: fmt.Sprintf("(forall ((q_j Int)) (! %s :pattern (%s)))", ax.S, Select(na, j).S), Sort: SBool}, "slices.Reverse: contents")
		ex.storeLV(ns.st, args[0].Origin, WithField(s, 0, na))
		return nil
	}

	// math.Inf(sign) with a constant sign: a fresh real number remembered as +infinity / -infinity, of which nothing else is
	// known; math.Nextafter(x, y): strictly towards y when y is such an infinity (float64 as real numbers: false only for
	// an infinite or NaN x), otherwise an arbitrary value.
	externals["math.Inf"] = func(f *Frame, ns *nodeState, x *ssa.Call, fn *ssa.Function, args []Val) []Val {
		ex := f.ex
		ex.callSeq["math.Inf"]++
		r := ex.vc.Declare(fmt.Sprintf("%sinf!%d", f.prefix, ex.callSeq["math.Inf"]), SReal)
		if k := args[0].T.K; k != nil {
			if k.Sign() >= 0 {
				ex.callSeq["math.Inf is "+r.S] = 1
			} else {
				ex.callSeq["math.Inf is "+r.S] = -1
			}
		}
		return []Val{{T: r}}
	}
	externals["math.Nextafter"] = func(f *Frame, ns *nodeState, x *ssa.Call, fn *ssa.Function, args []Val) []Val {
		ex := f.ex
		ex.callSeq["math.Nextafter"]++
		r := ex.vc.Declare(fmt.Sprintf("%snextafter!%d", f.prefix, ex.callSeq["math.Nextafter"]), SReal)
		switch ex.callSeq["math.Inf is "+args[1].T.S] {
		case 1:
			ex.vc.Assume(ltT(args[0].T, r), "math.Nextafter(x, +Inf) > x (float64 as real numbers)")
		case -1:
			ex.vc.Assume(ltT(r, args[0].T), "math.Nextafter(x, -Inf) < x (float64 as real numbers)")
		}
		return []Val{{T: r}}
	}

	// strconv.Atoi: an uninterpreted partial function of the string.
	externals["strconv.Atoi"] = func(f *Frame, ns *nodeState, x *ssa.Call, fn *ssa.Function, args []Val) []Val {
		ex := f.ex
		vc := ex.vc
		ex.needPrelude("strings")
		s := args[0].T
		val := App(SInt, "atoi", s)
		ok := App(SBool, "atoiOK", s)
		is := vc.IfaceSort()
		err := vc.Declare(f.prefix+"atoi_err", is)
		vc.Assume(Eq(Eq(err, Atom(is.Alt, is)), ok), "strconv.Atoi: error exactly when the string is not an integer")
		lo, hi := intRange(types.Typ[types.Int])
		vc.Assume(And(leT(IntLit(lo, SInt), val), leT(val, IntLit(hi, SInt))), "strconv.Atoi: int range")
		return []Val{{T: Ite(ok, val, IntLit64(0, SInt))}, {T: err}}
	}

	// slices.Max(s): panics on an empty slice; otherwise an element that bounds all elements.
	externals["slices.Max"] = func(f *Frame, ns *nodeState, x *ssa.Call, fn *ssa.Function, args []Val) []Val {
		ex := f.ex
		vc := ex.vc
		s := ex.viewOf(ns.st, args[0])
		n := slLen(s)
		ex.panics = append(ex.panics, panicExit{reach: And(ns.reach, leT(n, IntLit64(0, SInt))), what: "slices.Max of an empty slice (" + f.pos(x.Pos()) + ")"})
		ns.reach = vc.Define(f.prefix+"Rnp", And(ns.reach, ltT(IntLit64(0, SInt), n)))
		ex.needPrelude("lists")
		r := vc.Declare(f.prefix+"max", s.Sort.Elem)
		if s.Sort.Elem.Kind == KInt {
			vc.Assume(Implies(ns.reach, Eq(r, App(SInt, "sliceMax", s))), "slices.Max is a function of the slice")
		}
		w := vc.Declare(f.prefix+"max_at", SInt)
		i := Atom("q_i", SInt)
		vc.Assume(Implies(ns.reach, And(leT(IntLit64(0, SInt), w), ltT(w, n), Eq(Select(slArr(s), w), r))), "slices.Max: the maximum is an element")
		vc.Assume(Implies(ns.reach, forallInt("q_i", Implies(And(leT(IntLit64(0, SInt), i), ltT(i, n)), leT(Select(slArr(s), i), r)))), "slices.Max: bounds every element")
		return []Val{{T: r}}
	}
}

func init() {
	// errors.As(err, target): true at least when the dynamic type of err is the element type of target (a chain of
	// wrapped errors may also match: the result is otherwise arbitrary). *target is overwritten with an arbitrary value.
	externals["errors.As"] = func(f *Frame, ns *nodeState, x *ssa.Call, fn *ssa.Function, args []Val) []Val {
		ex, vc := f.ex, f.ex.vc
		mi, ok := x.Common().Args[1].(*ssa.MakeInterface)
		if !ok {
			ex.fail("errors.As: target is not a freshly boxed pointer")
		}
		pt, ok := mi.X.Type().Underlying().(*types.Pointer)
		if !ok {
			ex.fail("errors.As: target is not a pointer")
		}
		p := f.operand(ns.env, mi.X)
		lv := f.derefPtr(ns, p, pt.Elem(), "errors.As target", x.Pos())
		hv := f.havocVal(pt.Elem(), f.prefix+"as_target", ns.reach)
		ex.storeLV(ns.st, lv, ex.toData(ns.st, hv, pt.Elem()))
		r := vc.Declare(f.prefix+"as_ok", SBool)
		e := args[0].T
		is := vc.IfaceSort()
		same := And(Not(Eq(e, Atom(is.Alt, is))), Eq(FieldOf(e, 0), IntLit64(int64(vc.TypeID(pt.Elem())), SInt)))
		vc.Assume(Implies(And(ns.reach, same), r), "errors.As: an error whose dynamic type is the target's element type matches")
		vc.Assume(Implies(And(ns.reach, Eq(e, Atom(is.Alt, is))), Not(r)), "errors.As: nil matches nothing")
		return []Val{{T: r}}
	}
}

func init() {
	// slices.Index(s, v): -1, or the position of an element equal to v
	externals["slices.Index"] = func(f *Frame, ns *nodeState, x *ssa.Call, fn *ssa.Function, args []Val) []Val {
		ex, vc := f.ex, f.ex.vc
		s := ex.viewOf(ns.st, args[0])
		r := vc.Declare(f.prefix+"index", SInt)
		v := args[1].T
		vc.Assume(Implies(ns.reach, And(leT(IntLit64(-1, SInt), r), ltT(r, slLen(s)))), "slices.Index: -1 or a position inside the slice")
		if v.S != "" && v.Sort != nil && s.Sort.Elem != nil && sameSort(v.Sort, s.Sort.Elem) {
			vc.Assume(Implies(And(ns.reach, leT(IntLit64(0, SInt), r)), Eq(Select(slArr(s), r), v)), "slices.Index: the element at the returned position equals the value")
		}
		return []Val{{T: r}}
	}
}

func init() {
	// slices.Contains(s, v): for integer slices, membership through the choice function idxOf of the lists prelude
	// (true iff some element equals v); for other element types an arbitrary boolean
	externals["slices.Contains"] = func(f *Frame, ns *nodeState, x *ssa.Call, fn *ssa.Function, args []Val) []Val {
		ex, vc := f.ex, f.ex.vc
		s := ex.viewOf(ns.st, args[0])
		r := vc.Declare(f.prefix+"contains", SBool)
		v := args[1].T
		if s.Sort.Elem != nil && s.Sort.Elem.Kind == KInt && v.Sort != nil && v.Sort.Kind == KInt {
			ex.needPrelude("lists")
			i := App(SInt, "idxOf", s, v)
			in := And(leT(IntLit64(0, SInt), i), ltT(i, slLen(s)), Eq(Select(slArr(s), i), v))
			vc.Assume(Implies(ns.reach, Eq(r, in)), "slices.Contains on an integer slice: true iff some element equals the value")
			q := Atom("q_ci", SInt)
			vc.Assume(Implies(And(ns.reach, Not(r)), Term{S: fmt.Sprintf("(forall ((q_ci Int)) (! (=> (and (<= 0 q_ci) (< q_ci %s)) (not (= %s %s))) :pattern (%s)))",
				slLen(s).S, Select(slArr(s), q).S, v.S, Select(slArr(s), q).S), Sort: SBool}), "slices.Contains false: no element equals the value")
		}
		return []Val{{T: r}}
	}
}

func init() {
	// strings.ToLower / strconv.ParseUint: uninterpreted functions of the string (deterministic, no effect)
	externals["strings.ToLower"] = func(f *Frame, ns *nodeState, x *ssa.Call, fn *ssa.Function, args []Val) []Val {
		f.ex.vc.DeclareFun("str_toLower", []*Sort{SStr}, SStr)
		return []Val{{T: App(SStr, "str_toLower", args[0].T)}}
	}
	externals["strconv.ParseUint"] = func(f *Frame, ns *nodeState, x *ssa.Call, fn *ssa.Function, args []Val) []Val {
		vc := f.ex.vc
		vc.DeclareFun("str_parseUint", []*Sort{SStr}, SInt)
		vc.DeclareFun("str_parseUintOK", []*Sort{SStr}, SBool)
		v := App(SInt, "str_parseUint", args[0].T)
		ok := App(SBool, "str_parseUintOK", args[0].T)
		vc.Assume(And(leT(IntLit64(0, SInt), v), leT(v, IntLit(new(big.Int).Sub(new(big.Int).Lsh(big.NewInt(1), 64), big.NewInt(1)), SInt))), "strconv.ParseUint: a 64-bit value")
		is := vc.IfaceSort()
		e := vc.Declare(f.prefix+"parse_err", is)
		vc.Assume(Eq(Eq(e, Atom(is.Alt, is)), ok), "strconv.ParseUint: the error is nil exactly when the string is a number in range")
		f.ex.vc.assumeNote("strconv.ParseUint with base 10, 64 bits: uninterpreted function of the string")
		return []Val{{T: v}, {T: e}}
	}
}
