package main

import (
	"flag"
	"sync"
	"fmt"
	"os"
	"strings"
)

func main() {
	if len(os.Args) < 2 {
		fmt.Fprintln(os.Stderr, "usage: gvc check|gen|replay|selftest ...")
		os.Exit(2)
	}
	defer cleanupScratch()
	switch os.Args[1] {
	case "gen":
		fs := flag.NewFlagSet("gen", flag.ExitOnError)
		fn := fs.String("f", "", "function key (pkg.Name) or lemma:pkg.name")
		prop := fs.String("p", "", "property filter")
		dump := fs.String("dump", "", "dump the query of the obligation with this name")
		run := fs.Bool("run", false, "run the solvers")
		only := fs.String("only", "", "only obligations whose name contains this")
		timeout := fs.Int("t", 30, "timeout per obligation (s)")
		repo := fs.String("repo", "/repo", "repository")
		fs.Parse(os.Args[2:])
		p, err := LoadProgram(*repo, specDirDefault(), nil)
		if err != nil {
			fmt.Fprintln(os.Stderr, err)
			os.Exit(2)
		}
		var res *FuncResult
		if strings.HasPrefix(*fn, "lemma:") {
			lm := p.contracts.Lemmas[strings.TrimPrefix(*fn, "lemma:")]
			if lm == nil {
				fmt.Fprintln(os.Stderr, "no such lemma")
				os.Exit(2)
			}
			res = p.GenLemma(lm, *prop)
		} else {
			fc := p.contracts.Funcs[*fn]
			if fc == nil {
				fmt.Fprintln(os.Stderr, "no contract for", *fn)
				os.Exit(2)
			}
			res = p.GenFunc(fc, *prop)
		}
		if res.Err != nil {
			fmt.Println("ERROR:", res.Err)
		}
		var sel []*Obligation
		for _, o := range res.VC.Obls {
			if *dump != "" {
				if o.Name == *dump {
					fmt.Println(o.Query(true))
				}
				continue
			}
			if *only != "" && !strings.Contains(o.Name, *only) {
				continue
			}
			sel = append(sel, o)
		}
		lines := make([]string, len(sel))
		var wg sync.WaitGroup
		sem := make(chan struct{}, 10)
		for i, o := range sel {
			lines[i] = fmt.Sprintf("%-70s %-9s %s", o.Name, o.Kind, o.Pos)
			if !*run {
				continue
			}
			wg.Add(1)
			go func(i int, o *Obligation) {
				defer wg.Done()
				sem <- struct{}{}
				defer func() { <-sem }()
				var r SolverResult
				if o.Expect == Unsat && o.HasHeavy() {
					r = Solve(o.QueryMode(false, true), maxInt(5, *timeout/3), 0, nil)
					if r.Answer != Unsat {
						r = Solve(o.Query(true), *timeout, 0, nil)
					} else {
						r.Backend += "(light)"
					}
				} else {
					r = Solve(o.Query(true), *timeout, 0, nil)
				}
				ok := r.Answer == o.Expect || (o.Expect == Sat && r.Answer != Unsat)
				lines[i] += fmt.Sprintf("  %s %s %.2fs ok=%v", r.Answer, r.Backend, r.Seconds, ok)
				if !ok {
					lines[i] += "\n    " + strings.ReplaceAll(truncate(r.Output, 600), "\n", "\n    ")
				}
			}(i, o)
		}
		wg.Wait()
		for _, l := range lines {
			fmt.Println(l)
		}
		fmt.Println("assumptions:", res.VC.Assumes)
		fmt.Println("external:", res.External, "inlined:", res.Inlined, "contracts used:", res.UnderCon)
	default:
		runMain(os.Args[1:])
	}
}
