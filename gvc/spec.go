package main

// Translation of contract expressions to SMT terms.

import (
	"golang.org/x/tools/go/ssa"
	"fmt"
	"runtime/debug"
	"go/types"
	"math/big"
	"os"
	"path/filepath"
	"regexp"
	"strings"
)

type SpecSig struct {
	Name   string
	Params []*Sort
	Result *Sort
}

type Scope struct {
	ex    *Exec
	names map[string]Val
	st    State
	old   *Scope
	bound map[string]Term
	mode  string
	head  *Scope // state at the head of the enclosing cut loop (for athead(...))
}

func (f *Frame) scope(ns nodeState) *Scope {
	return &Scope{ex: f.ex, names: ns.names, st: ns.st, old: f.oldScope, bound: map[string]Term{}}
}

func (sc *Scope) with(name string, t Term) *Scope {
	n := &Scope{ex: sc.ex, names: sc.names, st: sc.st, old: sc.old, bound: map[string]Term{}, head: sc.head}
	for k, v := range sc.bound {
		n.bound[k] = v
	}
	n.bound[name] = t
	return n
}

func (sc *Scope) errorf(e *SExpr, format string, args ...any) {
	if os.Getenv("GVC_TRACE") != "" {
		debug.PrintStack()
	}
	panic(specError{fmt.Sprintf("contract expression %q: %s", e.String(), fmt.Sprintf(format, args...))})
}

type specError struct{ msg string }

func (s specError) Error() string { return s.msg }

func (sc *Scope) evalBool(e *SExpr) Term {
	t := sc.eval(e)
	if t.Sort.Kind != KBool {
		sc.errorf(e, "expected a boolean, got %s", t.Sort)
	}
	return t
}

// tryBool evaluates e; defined is false when the expression dereferences a statically nil pointer.
func (sc *Scope) tryBool(e *SExpr) (t Term, defined bool) {
	defer func() {
		if r := recover(); r != nil {
			if se, ok := r.(specError); ok && strings.Contains(se.msg, "nil pointer") {
				t, defined = Term{}, false
				return
			}
			panic(r)
		}
	}()
	return sc.evalBool(e), true
}

func (sc *Scope) defaultIntSort() *Sort {
	if sc.ex.vc.Mode == "bv" {
		return SBV(64)
	}
	return SInt
}

func parseLit(s string) (*big.Int, *big.Rat, bool) {
	if strings.Contains(s, ".") && !strings.HasPrefix(s, "0x") {
		r, ok := new(big.Rat).SetString(s)
		return nil, r, ok
	}
	k, ok := new(big.Int).SetString(s, 0)
	return k, nil, ok
}

func (sc *Scope) lit(e *SExpr, want *Sort) Term {
	k, r, ok := parseLit(e.Name)
	if !ok {
		sc.errorf(e, "bad literal")
	}
	if want == nil || (want.Kind != KInt && want.Kind != KReal && want.Kind != KBV) {
		want = sc.defaultIntSort()
		if r != nil {
			want = SReal
		}
	}
	if r != nil {
		if want.Kind != KReal {
			sc.errorf(e, "real literal where %s expected", want)
		}
		// a decimal literal denotes what it denotes in Go: the nearest float64 (1.99 is not 199/100)
		f, _ := r.Float64()
		return ratTerm(new(big.Rat).SetFloat64(f))
	}
	return IntLit(k, want)
}

func isLit(e *SExpr) bool {
	return e.Op == "lit" || (e.Op == "un" && e.Name == "-" && e.Args[0].Op == "lit")
}

// evalWant evaluates e, giving literals the wanted sort.
func (sc *Scope) evalWant(e *SExpr, want *Sort) Term {
	if e.Op == "lit" {
		return sc.lit(e, want)
	}
	if e.Op == "un" && e.Name == "-" && e.Args[0].Op == "lit" {
		t := sc.lit(e.Args[0], want)
		if t.Sort.Kind == KBV {
			return bvFold1("bvneg", t)
		}
		if t.K != nil {
			return IntLit(new(big.Int).Neg(t.K), t.Sort)
		}
		return App(t.Sort, "-", t)
	}
	t := sc.eval(e)
	return sc.coerce(t, want)
}

func (sc *Scope) coerce(t Term, want *Sort) Term {
	if want == nil || sameSort(t.Sort, want) {
		return t
	}
	if t.Sort.Kind == KInt && want.Kind == KReal {
		return toReal(t)
	}
	return t
}

func (sc *Scope) eval(e *SExpr) Term {
	switch e.Op {
	case "lit":
		return sc.lit(e, nil)
	case "str":
		return sc.ex.vc.StrConst(e.Name)
	case "id", "sel", "idx":
		v := sc.evalVal(e)
		return sc.dataOf(e, v)
	case "un":
		switch e.Name {
		case "!":
			return Not(sc.evalBool(e.Args[0]))
		case "-":
			t := sc.evalWant(e.Args[0], nil)
			if e.Args[0].Op == "lit" {
				return sc.evalWant(e, nil)
			}
			if t.Sort.Kind == KBV {
				return bvFold1("bvneg", t)
			}
			return App(t.Sort, "-", t)
		}
	case "bin":
		return sc.binary(e)
	case "call":
		return sc.call(e)
	case "binder":
		return sc.binder(e)
	}
	sc.errorf(e, "cannot evaluate")
	return Term{}
}

func (sc *Scope) dataOf(e *SExpr, v Val) Term {
	if v.IsPtr {
		if v.P == nil {
			sc.errorf(e, "nil pointer used as a value")
		}
		return sc.ex.loadLV(sc.st, v.P)
	}
	if len(v.Tup) > 0 || v.Fn != nil || v.Poison != "" {
		sc.errorf(e, "not a data value")
	}
	if v.Origin != nil {
		if _, live := sc.st[v.Origin.Cell]; live || sc.ex.globalInit[v.Origin.Cell].Sort != nil {
			return sc.ex.viewOf(sc.st, v)
		}
	}
	if v.T.Sort == nil {
		sc.errorf(e, "no value")
	}
	return v.T
}

func (sc *Scope) evalVal(e *SExpr) Val {
	switch e.Op {
	case "id":
		if t, ok := sc.bound[e.Name]; ok {
			return Val{T: t}
		}
		if strings.HasPrefix(e.Name, "seen_") {
			if c, ok := sc.ex.iterByName[e.Name[5:]]; ok {
				if t, live := sc.st[c]; live {
					return Val{T: t}
				}
			}
			sc.errorf(e, "no map iterator named %s in this state", e.Name[5:])
		}
		if c, ok := sc.ex.ghostLists[e.Name]; ok {
			if t, live := sc.st[c]; live {
				return Val{T: t}
			}
			sc.errorf(e, "ghost list %s not available in this state", e.Name)
		}
		if strings.HasPrefix(e.Name, "set_") || strings.HasPrefix(e.Name, "pos_") {
			if vw, ok := sc.ex.views[e.Name[4:]]; ok {
				c := vw.set
				if e.Name[:4] == "pos_" {
					c = vw.pos
				}
				if t, live := sc.st[c]; live {
					return Val{T: t}
				}
				sc.errorf(e, "ghost view not available in this state")
			}
		}
		if v, ok := sc.names[e.Name]; ok {
			if v.Poison != "" {
				sc.errorf(e, "%s is not defined on this path (%s)", e.Name, v.Poison)
			}
			return v
		}
		switch e.Name {
		case "true":
			return Val{T: TTrue}
		case "false":
			return Val{T: TFalse}
		}
		if sig, ok := sc.ex.vc.specSigs[e.Name]; ok && len(sig.Params) == 0 {
			return Val{T: Atom(e.Name, sig.Result)}
		}
		sc.errorf(e, "unknown identifier %q", e.Name)
	case "sel":
		base := sc.evalVal(e.Args[0])
		if base.IsPtr {
			if base.P == nil {
				sc.errorf(e, "field of nil pointer")
			}
			_ = base.NilIf // a possibly-nil pointer: the contract is expected to guard the access
			cur := sc.ex.loadLV(sc.st, base.P)
			path, ok := fieldPath(cur.Sort, e.Name)
			if !ok {
				sc.errorf(e, "no field %q in %s", e.Name, cur.Sort)
			}
			lv := base.P
			for _, fi := range path {
				lv = lv.extend(PathElem{Kind: 'f', Field: fi})
			}
			return Val{IsPtr: true, P: lv, LValue: true}
		}
		t := sc.dataOf(e.Args[0], base)
		if t.Sort.Role == "ptr" {
			t = FieldOf(t, 0)
		}
		path, ok := fieldPath(t.Sort, e.Name)
		if !ok {
			sc.errorf(e, "no field %q in %s", e.Name, t.Sort)
		}
		for _, fi := range path {
			t = FieldOf(t, fi)
		}
		return Val{T: t}
	case "idx":
		base := sc.evalVal(e.Args[0])
		bt := sc.dataOf(e.Args[0], base)
		switch {
		case bt.Sort.Kind == KArray:
			k := sc.evalWant(e.Args[1], bt.Sort.Key)
			return Val{T: Select(bt, k)}
		case bt.Sort.Role == "array":
			i := sc.evalWant(e.Args[1], sc.defaultIntSort())
			return Val{T: ArrayGet(bt, i)}
		case bt.Sort.Role == "slice":
			i := sc.evalWant(e.Args[1], SInt)
			return Val{T: Select(slArr(bt), i)}
		case bt.Sort.Role == "map":
			k := sc.evalWant(e.Args[1], bt.Sort.Key)
			return Val{T: Ite(Select(FieldOf(bt, 0), k), Select(FieldOf(bt, 1), k), sc.ex.vc.zeroTerm(bt.Sort.Elem))}
		}
		sc.errorf(e, "cannot index %s", bt.Sort)
	}
	return Val{T: sc.eval(e)}
}

// fieldPath finds a (possibly promoted) field by Go name.
func fieldPath(s *Sort, name string) ([]int, bool) {
	if s.Kind != KData || s.Role != "struct" {
		return nil, false
	}
	for i, f := range s.Fields {
		if f.Go == name {
			return []int{i}, true
		}
	}
	for i, f := range s.Fields {
		if f.Sort.Kind == KData && f.Sort.Role == "struct" {
			if p, ok := fieldPath(f.Sort, name); ok {
				return append([]int{i}, p...), true
			}
		}
	}
	return nil, false
}

func (sc *Scope) binary(e *SExpr) Term {
	op := e.Name
	switch op {
	case "&&":
		a := sc.evalBool(e.Args[0])
		if a.B != nil && !*a.B {
			return TFalse // short circuit: the right operand may be undefined
		}
		return And(a, sc.evalBool(e.Args[1]))
	case "||":
		a := sc.evalBool(e.Args[0])
		if a.B != nil && *a.B {
			return TTrue
		}
		return Or(a, sc.evalBool(e.Args[1]))
	case "==>":
		a := sc.evalBool(e.Args[0])
		if a.B != nil && !*a.B {
			return TTrue
		}
		b, defined := sc.tryBool(e.Args[1])
		if !defined {
			return Not(a) // the consequent dereferences a nil pointer: the antecedent must not hold
		}
		return Implies(a, b)
	case "<==>":
		return Eq(sc.evalBool(e.Args[0]), sc.evalBool(e.Args[1]))
	}
	if op == "==" || op == "!=" {
		for i := 0; i < 2; i++ {
			if e.Args[i].Op == "id" && e.Args[i].Name == "nil" {
				r := sc.call(&SExpr{Op: "call", Name: "isNil", Args: []*SExpr{e.Args[1-i]}})
				if op == "!=" {
					return Not(r)
				}
				return r
			}
		}
	}
	var a, b Term
	switch {
	case isLit(e.Args[0]) && !isLit(e.Args[1]):
		b = sc.eval(e.Args[1])
		a = sc.evalWant(e.Args[0], b.Sort)
	case isLit(e.Args[1]) && !isLit(e.Args[0]):
		a = sc.eval(e.Args[0])
		b = sc.evalWant(e.Args[1], a.Sort)
	default:
		a = sc.eval(e.Args[0])
		b = sc.eval(e.Args[1])
	}
	// numeric promotion Int -> Real
	if a.Sort.Kind == KInt && b.Sort.Kind == KReal {
		a = toReal(a)
	} else if a.Sort.Kind == KReal && b.Sort.Kind == KInt {
		b = toReal(b)
	}
	if !sameSort(a.Sort, b.Sort) {
		sc.errorf(e, "operands of different sorts: %s and %s", a.Sort, b.Sort)
	}
	switch op {
	case "==":
		return Eq(a, b)
	case "!=":
		return Not(Eq(a, b))
	}
	switch a.Sort.Kind {
	case KInt, KReal:
		switch op {
		case "<":
			return ltT(a, b)
		case "<=":
			return leT(a, b)
		case ">":
			return ltT(b, a)
		case ">=":
			return leT(b, a)
		case "+":
			return addT(a, b)
		case "-":
			return subT(a, b)
		case "*":
			return sc.ex.vc.mulT(a, b)
		case "/":
			if a.Sort.Kind == KReal {
				return App(SReal, "/", a, b)
			}
			if sc.ex.vc.OpaqueDiv && a.Sort.Kind == KInt && b.K == nil {
				return App(SInt, "dv", a, b)
			}
			return App(SInt, "div", a, b)
		case "%":
			if a.Sort.Kind == KInt {
				return App(SInt, "mod", a, b)
			}
		case "<<", ">>":
			if a.Sort.Kind == KInt && b.K != nil && b.K.IsInt64() && b.K.Int64() >= 0 && b.K.Int64() < 200 {
				p := IntLit(new(big.Int).Lsh(big.NewInt(1), uint(b.K.Int64())), SInt)
				if op == "<<" {
					return App(SInt, "*", a, p)
				}
				return App(SInt, "div", a, p)
			}
		}
	case KBV:
		ops := map[string]string{"<": "bvult", "<=": "bvule", ">": "bvugt", ">=": "bvuge", "+": "bvadd", "-": "bvsub", "*": "bvmul",
			"/": "bvudiv", "%": "bvurem", "&": "bvand", "|": "bvor", "^": "bvxor", "<<": "bvshl", ">>": "bvlshr"}
		if o, ok := ops[op]; ok {
			s := a.Sort
			if strings.HasPrefix(o, "bvu") && len(o) == 5 && o != "bvudiv" && o != "bvurem" {
				s = SBool
			}
			if op == "<" || op == "<=" || op == ">" || op == ">=" {
				s = SBool
			}
			return App(s, o, a, b)
		}
	}
	sc.errorf(e, "operator %s not defined on %s", op, a.Sort)
	return Term{}
}

func (sc *Scope) binder(e *SExpr) Term {
	q := e.Name // forall / exists
	vc := sc.ex.vc
	// typed binder: forall(x Int, y Real, body)
	if len(e.Vars) > 0 {
		// forall(x S, y S, body [, trigger(t1, t2, ...)])
		if len(e.Args) != 1 && !(len(e.Args) == 2 && e.Args[1].Op == "call" && e.Args[1].Name == "trigger") {
			sc.errorf(e, "typed binder needs exactly one body (and optionally a trigger(...))")
		}
		inner := sc
		var decl []string
		for _, v := range e.Vars {
			s := vc.sortByName(v.Sort)
			name := "q_" + sanitize(v.Name)
			inner = inner.with(v.Name, Atom(name, s))
			decl = append(decl, fmt.Sprintf("(%s %s)", name, s.Name))
		}
		body := inner.evalBool(e.Args[0])
		if len(e.Args) == 2 {
			var ps []string
			for _, p := range e.Args[1].Args {
				ps = append(ps, inner.eval(p).S)
			}
			return Term{S: fmt.Sprintf("(%s (%s) (! %s :pattern (%s)))", q, strings.Join(decl, " "), body.S, strings.Join(ps, " ")), Sort: SBool}
		}
		return Term{S: fmt.Sprintf("(%s (%s) %s)", q, strings.Join(decl, " "), body.S), Sort: SBool}
	}
	// bounded integer binder: forall(i, lo, hi, body)
	if len(e.Args) == 4 && e.Args[0].Op == "id" {
		name := "q_" + sanitize(e.Args[0].Name)
		s := SInt
		lo := sc.evalWant(e.Args[1], s)
		hi := sc.evalWant(e.Args[2], s)
		v := Atom(name, s)
		body := sc.with(e.Args[0].Name, v).evalBool(e.Args[3])
		rng := And(leT(lo, v), ltT(v, hi))
		if q == "forall" {
			return Term{S: fmt.Sprintf("(forall ((%s Int)) %s)", name, Implies(rng, body).S), Sort: SBool}
		}
		return Term{S: fmt.Sprintf("(exists ((%s Int)) %s)", name, And(rng, body).S), Sort: SBool}
	}
	sc.errorf(e, "bad binder")
	return Term{}
}

var castNames = map[string]bool{"int": true, "int64": true, "uint": true, "uint64": true, "int32": true, "uint32": true, "uint8": true, "float64": true}

func (sc *Scope) call(e *SExpr) Term {
	vc := sc.ex.vc
	switch e.Name {
	case "old":
		if sc.old == nil {
			sc.errorf(e, "old() not available here")
		}
		o := &Scope{ex: sc.ex, names: sc.old.names, st: sc.old.st, old: sc.old, bound: sc.bound}
		return o.eval(e.Args[0])
	case "athead":
		if sc.head == nil {
			sc.errorf(e, "athead() is only available at a loop back edge")
		}
		// the state and the variables as they were at the loop head; names that only exist in the body keep
		// their current value (they are plain values, e.g. the key just computed)
		hn := copyNames(sc.names)
		for k, v := range sc.head.names {
			hn[k] = v
		}
		h := &Scope{ex: sc.ex, names: hn, st: sc.head.st, old: sc.old, bound: sc.bound}
		h.head = h // athead inside athead is the same state
		return h.eval(e.Args[0])
	case "ite":
		c := sc.evalBool(e.Args[0])
		var a, b Term
		if isLit(e.Args[1]) && !isLit(e.Args[2]) {
			b = sc.eval(e.Args[2])
			a = sc.evalWant(e.Args[1], b.Sort)
		} else {
			a = sc.eval(e.Args[1])
			b = sc.evalWant(e.Args[2], a.Sort)
		}
		return Ite(c, a, b)
	case "len":
		v := sc.evalVal(e.Args[0])
		t := sc.dataOf(e.Args[0], v)
		switch t.Sort.Role {
		case "array":
			return IntLit64(int64(t.Sort.N), sc.defaultIntSort())
		case "slice", "map":
			return lenOf(t)
		}
		sc.errorf(e, "len of %s", t.Sort)
	case "hasKey", "has":
		m := sc.eval(e.Args[0])
		if m.Sort.Kind == KArray {
			return Select(m, sc.evalWant(e.Args[1], m.Sort.Key))
		}
		if m.Sort.Role != "map" {
			sc.errorf(e, "hasKey of %s", m.Sort)
		}
		return Select(FieldOf(m, 0), sc.evalWant(e.Args[1], m.Sort.Key))
	case "mget":
		// raw map read (the stored value array at the key, whatever the domain says): ite-free, usable in triggers
		m := sc.eval(e.Args[0])
		if m.Sort.Role != "map" {
			sc.errorf(e, "mget of %s", m.Sort)
		}
		return Select(mpVal(m), sc.evalWant(e.Args[1], m.Sort.Key))
	case "isNil":
		v := sc.evalVal(e.Args[0])
		if v.IsPtr && !v.LValue {
			if v.P != nil && v.NilIf.Sort != nil {
				return v.NilIf
			}
			return BoolT(v.P == nil)
		}
		t := sc.dataOf(e.Args[0], v)
		switch t.Sort.Role {
		case "ptr", "iface":
			return Eq(t, Atom(t.Sort.Alt, t.Sort))
		case "slice", "map":
			return nilOf(t)
		}
		sc.errorf(e, "isNil of %s", t.Sort)
	case "deref":
		v := sc.evalVal(e.Args[0])
		if v.IsPtr && !v.LValue {
			return sc.dataOf(e.Args[0], v)
		}
		t := sc.dataOf(e.Args[0], v)
		if t.Sort.Role == "ptr" {
			return FieldOf(t, 0)
		}
		sc.errorf(e, "deref of %s", t.Sort)
	case "mul": // mul(a, b): the mathematical product, also where `*` is opaque (opaquemul)
		a, b := sc.eval(e.Args[0]), sc.eval(e.Args[1])
		return App(a.Sort, "*", a, b)
	case "hfloor":
		// floor(x / 2) in either mode
		t := sc.eval(e.Args[0])
		if t.Sort.Kind == KReal {
			return toReal(App(SInt, "to_int", App(SReal, "/", t, IntLit64(2, SReal))))
		}
		return App(SInt, "div", t, IntLit64(2, SInt))
	case "real":
		return toReal(sc.eval(e.Args[0]))
	case "floor":
		return App(SInt, "to_int", sc.eval(e.Args[0]))
	case "ifaceTag":
		t := sc.eval(e.Args[0])
		return FieldOf(t, 0)
	case "method": // method(x, Name): the result of the parameterless interface method Name on x (a pure function of x)
		t := sc.eval(e.Args[0])
		return ifaceGetter(vc, e.Args[1].Name, t, SStr)
	case "toLower":
		vc.DeclareFun("str_toLower", []*Sort{SStr}, SStr)
		return App(SStr, "str_toLower", sc.eval(e.Args[0]))
	case "parseUint":
		vc.DeclareFun("str_parseUint", []*Sort{SStr}, SInt)
		return App(SInt, "str_parseUint", sc.eval(e.Args[0]))
	case "parseUintOK":
		vc.DeclareFun("str_parseUintOK", []*Sort{SStr}, SBool)
		return App(SBool, "str_parseUintOK", sc.eval(e.Args[0]))
	case "global": // global(name): the package-level variable of that name in the package of the function under verification
		name := e.Args[0].Name
		if sc.ex.topFn != nil {
			pkgs := []*ssa.Package{sc.ex.topFn.Pkg}
			for _, pk := range sc.ex.P.prog.AllPackages() {
				pkgs = append(pkgs, pk)
			}
			for _, pk := range pkgs {
				if pk == nil {
					continue
				}
				if g, ok := pk.Members[name].(*ssa.Global); ok && inModulePath(pk.Pkg.Path()) {
					c := sc.ex.globalCell(g)
					return sc.ex.cellValue(sc.st, c)
				}
			}
		}
		sc.errorf(e, "no package variable %q", name)
	case "typeIs": // typeIs(err, "pkg.Type")
		t := sc.eval(e.Args[0])
		name := e.Args[1].Name
		id, ok := sc.ex.P.typeIDByName(vc, name)
		if !ok {
			sc.errorf(e, "unknown type %q", name)
		}
		return And(Not(Eq(t, Atom(t.Sort.Alt, t.Sort))), Eq(FieldOf(t, 0), IntLit64(int64(id), SInt)))
	case "arr":
		// array constructor: arr(a, b, ...)
		var ts []Term
		for _, a := range e.Args {
			ts = append(ts, sc.evalWant(a, nil))
		}
		s := vc.ArraySortOf(len(ts), ts[0].Sort)
		return MkData(s, ts...)
	case "unchanged":
		cur := sc.eval(e.Args[0])
		old := sc.call(&SExpr{Op: "call", Name: "old", Args: e.Args})
		return Eq(cur, old)
	}
	if castNames[e.Name] && len(e.Args) == 1 {
		t := sc.evalWant(e.Args[0], nil)
		if vc.Mode == "real" && e.Name == "int64" {
			return toReal(t)
		}
		if e.Name == "float64" {
			return toReal(t)
		}
		if t.Sort.Kind == KReal && vc.Mode != "bv" && e.Name != "int64" {
			return toInt(t)
		}
		return t
	}
	if m, ok := sc.ex.P.contracts.Macros[e.Name]; ok {
		if len(m.Params) != len(e.Args) {
			sc.errorf(e, "macro %s expects %d arguments", m.Name, len(m.Params))
		}
		// the macro's parameters shadow bound variables of the same name at the call site (no capture)
		ib := map[string]Term{}
		for k, v := range sc.bound {
			ib[k] = v
		}
		for _, p := range m.Params {
			delete(ib, p)
		}
		inner := &Scope{ex: sc.ex, names: map[string]Val{}, st: sc.st, old: sc.old, bound: ib}
		if sc.head != nil {
			// athead() inside a macro body: same argument bindings, evaluated in the loop-head state
			hn := map[string]Val{}
			hsc := &Scope{ex: sc.ex, names: sc.head.names, st: sc.head.st, old: sc.old, bound: sc.bound}
			for i, p := range m.Params {
				func() {
					defer func() { recover() }()
					if isLit(e.Args[i]) {
						hn[p] = Val{T: hsc.evalWant(e.Args[i], nil)}
					} else {
						hn[p] = hsc.evalVal(e.Args[i])
					}
				}()
			}
			inner.head = &Scope{ex: sc.ex, names: hn, st: sc.head.st, bound: ib}
		}
		for i, p := range m.Params {
			if isLit(e.Args[i]) {
				inner.names[p] = Val{T: sc.evalWant(e.Args[i], nil)}
			} else {
				inner.names[p] = sc.evalVal(e.Args[i])
			}
		}
		if sc.old != nil && sc.old != sc {
			// old() inside a macro body refers to the caller's old state with the same argument bindings
			on := map[string]Val{}
			osc := &Scope{ex: sc.ex, names: sc.old.names, st: sc.old.st, old: sc.old, bound: sc.bound}
			for i, p := range m.Params {
				func() {
					defer func() { recover() }()
					if isLit(e.Args[i]) {
						on[p] = Val{T: osc.evalWant(e.Args[i], nil)}
					} else {
						on[p] = osc.evalVal(e.Args[i])
					}
				}()
			}
			inner.old = &Scope{ex: sc.ex, names: on, st: sc.old.st, bound: ib}
			inner.old.old = inner.old
		}
		return inner.eval(m.Body)
	}
	// lemma application (in `use` clauses): the instantiated statement
	if lm := sc.ex.P.findLemma(sc.ex.pkgOfTop(), e.Name); lm != nil {
		return sc.lemmaInstance(e, lm)
	}
	sig, ok := vc.specSigs[e.Name]
	if !ok {
		sc.errorf(e, "unknown spec function %q (is its prelude listed?)", e.Name)
	}
	if len(sig.Params) != len(e.Args) {
		sc.errorf(e, "%s expects %d arguments", e.Name, len(sig.Params))
	}
	args := make([]Term, len(e.Args))
	for i, a := range e.Args {
		args[i] = sc.evalWant(a, sig.Params[i])
		if !sameSort(args[i].Sort, sig.Params[i]) {
			sc.errorf(e, "argument %d of %s has sort %s, want %s", i+1, e.Name, args[i].Sort, sig.Params[i])
		}
	}
	if len(args) == 0 {
		return Atom(e.Name, sig.Result)
	}
	return App(sig.Result, e.Name, args...)
}

func (sc *Scope) lemmaInstance(e *SExpr, lm *Lemma) Term {
	vc := sc.ex.vc
	if len(lm.Params) != len(e.Args) {
		sc.errorf(e, "lemma %s expects %d arguments", lm.Name, len(lm.Params))
	}
	for _, p := range lm.Preludes {
		// "<name>def" preludes give definitions that only the lemma's own proof may unfold; users of the lemma
		// work with the declaration-only prelude <name>
		sc.ex.needPrelude(strings.TrimSuffix(p, "def"))
	}
	inner := &Scope{ex: sc.ex, names: map[string]Val{}, st: sc.st, bound: map[string]Term{}}
	var transfer []Term
	for i, p := range lm.Params {
		s := vc.sortByName(p.Sort)
		if s.Kind == KBV && vc.Mode != "bv" {
			// a lemma proved over w-bit vectors, used over mathematical integers: sound for arguments inside
			// [0, 2^w) as long as the statement uses only operations that agree there (+, *, <=, ==, / and % by
			// constants, >> by constants) and no intermediate value wraps; the range is made a premise
			t := sc.evalWant(e.Args[i], SInt)
			if t.Sort.Kind != KInt {
				sc.errorf(e, "lemma argument %d has sort %s, want an integer", i+1, t.Sort)
			}
			transfer = append(transfer, leT(IntLit64(0, SInt), t), ltT(t, IntLit(new(big.Int).Lsh(big.NewInt(1), uint(s.Width)), SInt)))
			inner.bound[p.Name] = t
			vc.assumeNote(fmt.Sprintf("lemma %s.%s is proved over %d-bit vectors and used over mathematical integers within [0, 2^%d) (bit-vector/integer transfer)", lm.Pkg, lm.Name, s.Width, s.Width))
			continue
		}
		t := sc.evalWant(e.Args[i], s)
		if !sameSort(t.Sort, s) {
			sc.errorf(e, "lemma argument %d has sort %s, want %s", i+1, t.Sort, s)
		}
		inner.bound[p.Name] = t
	}
	var pre, post []Term
	for _, r := range lm.Requires {
		pre = append(pre, inner.evalBool(r.Expr))
	}
	for _, r := range lm.Ensures {
		post = append(post, inner.evalBool(r.Expr))
	}
	sc.ex.usedLemma(lm)
	return Implies(And(append(transfer, pre...)...), And(post...))
}

// ---- sorts by name, preludes ----

var arrNameRe = regexp.MustCompile(`^A(\d+)_(.+)$`)

func (vc *VC) sortByName(name string) *Sort {
	switch name {
	case "Int":
		return SInt
	case "Real":
		return SReal
	case "Bool":
		return SBool
	case "GoStr", "String":
		return vc.StrSort()
	case "Iface":
		return vc.IfaceSort()
	case "M": // coordinate sort: int64
		if vc.Mode == "real" {
			return SReal
		}
		if vc.Mode == "bv" {
			return SBV(64)
		}
		return SInt
	}
	if strings.HasPrefix(name, "BV") {
		var w int
		if _, err := fmt.Sscanf(name, "BV%d", &w); err == nil {
			return SBV(w)
		}
	}
	if strings.HasPrefix(name, "(_ BitVec ") {
		var w int
		fmt.Sscanf(name, "(_ BitVec %d)", &w)
		return SBV(w)
	}
	if s, ok := vc.sorts[name]; ok {
		return s
	}
	if m := arrNameRe.FindStringSubmatch(name); m != nil {
		var n int
		fmt.Sscanf(m[1], "%d", &n)
		return vc.ArraySortOf(n, vc.sortByName(m[2]))
	}
	if strings.HasPrefix(name, "Sl_") {
		return vc.SliceSortOf(vc.sortByName(name[3:]))
	}
	if strings.HasPrefix(name, "Set_") {
		return SArray(vc.sortByName(name[4:]), SBool)
	}
	if strings.HasPrefix(name, "Pt_") {
		return vc.PtrSortOf(vc.sortByName(name[3:]))
	}
	if strings.HasPrefix(name, "S_") && vc.lookupStruct != nil {
		if t := vc.lookupStruct(name); t != nil {
			return vc.SortOf(t)
		}
	}
	if strings.HasPrefix(name, "Mp_") && vc.lookupStruct != nil {
		// Mp_<key>_<elem> cannot be split unambiguously in general; try the known sorts after SortOf of program types
		if s, ok := vc.sorts[name]; ok {
			return s
		}
	}
	panic(specError{"unknown sort name " + name})
}

var sigRe = regexp.MustCompile(`^\((define-fun|define-fun-rec|declare-fun)\s+([^\s()]+)\s+\(`)

// loadPrelude reads /verif/spec/<name>.<mode>.smt2 (or <name>.smt2), registers signatures, and emits the text.
func (ex *Exec) needPrelude(name string) {
	vc := ex.vc
	if vc.prelude[name] {
		return
	}
	vc.prelude[name] = true
	var data []byte
	var err error
	cands := []string{name + "." + vc.Mode + ".smt2"}
	if vc.Mode == "real" {
		cands = append(cands, name+".int.smt2") // only int64 ordinates are relaxed to reals; other integers stay integers
	}
	cands = append(cands, name+".smt2")
	for _, cand := range cands {
		data, err = os.ReadFile(filepath.Join(ex.P.SpecDir, cand))
		if err == nil {
			break
		}
	}
	if err != nil {
		panic(specError{"prelude " + name + " not found for mode " + vc.Mode})
	}
	text := string(data)
	// "; requires: a b" lines pull other preludes first
	for _, l := range strings.Split(text, "\n") {
		if strings.HasPrefix(l, "; requires:") {
			for _, r := range strings.Fields(l[len("; requires:"):]) {
				ex.needPrelude(r)
			}
		}
		if strings.HasPrefix(l, "; sorts:") {
			for _, r := range strings.Fields(l[len("; sorts:"):]) {
				r = regexp.MustCompile(`_M$`).ReplaceAllString(r, "_"+sortTag(vc.sortByName("M")))
				vc.sortByName(r)
			}
		}
	}
	// the coordinate sort M
	msort := vc.sortByName("M")
	text = strings.ReplaceAll(text, "{M}", msort.Name)
	mtag := sortTag(msort)
	text = regexp.MustCompile(`(A\d+(?:_A\d+)*)_M([_\s)])`).ReplaceAllString(text, "${1}_"+mtag+"${2}")
	if msort.Kind == KReal {
		text = strings.ReplaceAll(text, "(to_real_m ", "(+ 0.0 ")
	} else {
		text = strings.ReplaceAll(text, "(to_real_m ", "(to_real ")
	}
	forms := topLevelForms(text)
	var keep []string
	for _, form := range forms {
		m := sigRe.FindStringSubmatch(form)
		if m == nil {
			keep = append(keep, form)
			continue
		}
		sig := parseSig(vc, form, m[1], m[2])
		vc.specSigs[sig.Name] = sig
		keep = append(keep, form)
	}
	vc.Raw(strings.Join(keep, "\n"))
}

func topLevelForms(text string) []string {
	var out []string
	depth := 0
	start := -1
	inComment := false
	for i := 0; i < len(text); i++ {
		c := text[i]
		if inComment {
			if c == '\n' {
				inComment = false
			}
			continue
		}
		switch c {
		case ';':
			inComment = true
		case '(':
			if depth == 0 {
				start = i
			}
			depth++
		case ')':
			depth--
			if depth == 0 && start >= 0 {
				out = append(out, stripComments(text[start:i+1]))
				start = -1
			}
		}
	}
	return out
}

func stripComments(s string) string {
	var b strings.Builder
	for _, l := range strings.Split(s, "\n") {
		if i := strings.Index(l, ";"); i >= 0 {
			l = l[:i]
		}
		b.WriteString(strings.TrimRight(l, " \t"))
		b.WriteString("\n")
	}
	return strings.TrimSpace(b.String())
}

func parseSig(vc *VC, form, kind, name string) *SpecSig {
	// (define-fun name ((a S) (b S)) R body)   (declare-fun name (S S) R)
	rest := strings.TrimSpace(form[strings.Index(form, name)+len(name):])
	parts := splitTop(rest[:len(rest)-1])
	sig := &SpecSig{Name: name}
	if len(parts) < 2 {
		panic(specError{"bad prelude form: " + truncate(form, 80)})
	}
	plist := parts[0]
	inner := splitTop(plist[1 : len(plist)-1])
	for _, p := range inner {
		if kind == "declare-fun" {
			sig.Params = append(sig.Params, vc.sortByName(p))
		} else {
			q := splitTop(p[1 : len(p)-1])
			sig.Params = append(sig.Params, vc.sortByName(q[1]))
		}
	}
	sig.Result = vc.sortByName(parts[1])
	return sig
}

func (p *Program) typeIDByName(vc *VC, name string) (int, bool) {
	// name: "pointindex.OutsideGridError"
	i := strings.LastIndex(name, ".")
	if i < 0 {
		return 0, false
	}
	pkgName, typeName := name[:i], name[i+1:]
	for _, pk := range p.pkgs {
		if pk.Name == pkgName || strings.HasSuffix(pk.PkgPath, "/"+pkgName) {
			if obj := pk.Types.Scope().Lookup(typeName); obj != nil {
				return vc.TypeID(obj.Type()), true
			}
		}
	}
	return 0, false
}

func (p *Program) lookupStructFn() func(string) types.Type {
	return func(sortName string) types.Type {
		for _, pk := range p.allPkgs {
			sc := pk.Types.Scope()
			for _, n := range sc.Names() {
				if tn, ok := sc.Lookup(n).(*types.TypeName); ok {
					if _, isStruct := tn.Type().Underlying().(*types.Struct); isStruct {
						if "S_"+typeKeyName(tn.Type()) == sortName {
							return tn.Type()
						}
					}
				}
			}
		}
		return nil
	}
}

// ifaceGetter: parameterless interface methods with one basic result are modelled as pure functions of the receiver.
func ifaceGetter(vc *VC, method string, recv Term, res *Sort) Term {
	fn := "im_" + sanitize(method) + "_" + sanitize(res.Name)
	vc.DeclareFun(fn, []*Sort{vc.IfaceSort()}, res)
	return App(res, fn, recv)
}

func inModulePath(p string) bool { return p == modulePath || strings.HasPrefix(p, modulePath+"/") }
