package main

// What each property check consists of beyond the contracts tagged with the property id.

type PropertyPlan struct {
	ID          string
	AlsoFuncs   []string // contracts verified with this property although not tagged
	NotDecided  []string
	Assumptions []string
	Extra       func(cc *checkCtx) *extraResult
}

var propertyPlans = map[string]*PropertyPlan{
	"C17": {ID: "C17",
		NotDecided: []string{},
		Assumptions: []string{"uint is 64 bits wide"},
	},
}

func init() {
	propertyPlans["C09"] = &PropertyPlan{ID: "C09",
		NotDecided:  []string{},
		Assumptions: []string{"float64 ordinates and the conversion x*1e10 -> int64 are modelled over the reals (exact); ordinates within +-8e8 units"},
	}
}

func init() {
	propertyPlans["C02"] = &PropertyPlan{ID: "C02",
		NotDecided: []string{"order of travel of the returned centres", "the level-by-level descent of snapClosestPoints (which parents are visited, which list a level's result is)", "second sentence (non-collapsing polygon = concatenation of routed edges)"},
	}
	propertyPlans["C14"] = &PropertyPlan{ID: "C14"}
}
