package main

// What each property check consists of beyond the contracts tagged with the property id.

type PropertyPlan struct {
	ID          string
	AlsoFuncs   []string // contracts verified with this property although not tagged
	NotDecided  []string
	Assumptions []string
	Extra       func(cc *checkCtx) *extraResult
}

var descentLattice = overlayTest{Name: "descent-lattice", Level: "bounded", Src: "descent_lattice_test.go", PkgRel: "pointindex", Run: "^TestGvcDescentLattice$",
	Bound: "bounded stand-in for the order of travel (not proved) and cross-check of the descent: SnapClosestPoints on a 4x4 pixel grid of depth 2, all 83521 quarter-lattice segments for the full hot set plus a sub-lattice for 6 (quick) / 60 (thorough) random hot sets, several level combinations, against an exact-rational oracle including the order of the centres"}

var propertyPlans = map[string]*PropertyPlan{
	"C17": {ID: "C17",
		NotDecided: []string{},
		Assumptions: []string{"uint is 64 bits wide"},
	},
}

func init() {
	propertyPlans["C09"] = &PropertyPlan{ID: "C09",
		NotDecided:  []string{},
		Assumptions: []string{"float64 ordinates and the conversion x*1e10 -> int64 are modelled over the reals (exact); ordinates within +-8e8 units"},
	}
}

func init() {
	propertyPlans["C02"] = &PropertyPlan{ID: "C02",
		Extra: func(cc *checkCtx) *extraResult {
			return cc.runOverlayTests([]overlayTest{{Name: "lineIntersects-lattice", Level: "bounded", Src: "lineintersects_lattice_test.go", PkgRel: "pointindex", Run: "^TestGvcLineIntersectsLattice$",
				Bound: "sanity cross-check of the specification, not counted as proved: all 83521 segments with endpoints on the quarter-pixel lattice of a 4x4 pixel window against exact rational clipping"},
				descentLattice})
		},
		NotDecided: []string{"order of travel of the returned centres is only checked by the bounded stand-in descent-lattice", "that insertCoord establishes the index invariant indexInv (it is a precondition of the descent contracts)", "second sentence (non-collapsing polygon = concatenation of routed edges)"},
	}
	propertyPlans["C14"] = &PropertyPlan{ID: "C14",
		NotDecided: []string{"that a tile matrix set accepted by validation has root 1x1 and a power-of-two tile width (IsQuadTree does not check it); for the 14 built-in sets this is checked on the data (extra, exhaustive-data)"},
		Assumptions: []string{"float64 as real numbers; strconv.Atoi as an uninterpreted function of the id string; the JSON decoder guarantees a point of origin and a positive cell size for every tile matrix"},
		Extra: func(cc *checkCtx) *extraResult {
			return cc.runOverlayTests([]overlayTest{{Name: "embedded-tile-matrix-sets", Level: "exhaustive-data", Src: "c14_embedded_test.go", PkgRel: "", Run: "^TestGvcC14Embedded$",
				Bound: "all 14 embedded documents x every tile matrix id: validateTileMatrixSet run on the real code; accepted sets re-checked independently incl. root 1x1, power-of-two tiles and pixel size = cell size / 16"}})
		},
	}
}

func init() {
	propertyPlans["C15"] = &PropertyPlan{ID: "C15",
		NotDecided: []string{"bounding box == span from corner(0,0) to corner(width,height) exactly (double rounding at exact ties; identity not proved)",
			"points closer than 1e-9 to a tile border", "IEEE-754 rounding of the float64 operations (float64 is treated as a real number)",
			"the contents of the EPSG axis table (data; IsLatLon is trusted)"},
		Assumptions: []string{"float64 treated as real numbers", "points less than 9e18 tiles away from the origin (uint(x) of larger values is implementation-defined)"},
	}
}
