package main

// What each property check consists of beyond the contracts tagged with the property id.

type PropertyPlan struct {
	ID          string
	AlsoFuncs   []string // contracts verified with this property although not tagged
	NotDecided  []string
	Assumptions []string
	Extra       func(cc *checkCtx) *extraResult
	Demos       []findingDemo // demonstrations of recorded defects, re-run on every check (KNOWN-FINDING while present)
}

var descentLattice = overlayTest{Name: "descent-lattice", Level: "bounded", Src: "descent_lattice_test.go", PkgRel: "pointindex", Run: "^TestGvcDescentLattice$",
	Bound: "bounded stand-in for the order of travel (not proved) and cross-check of the descent: SnapClosestPoints on a 4x4 pixel grid of depth 2, all 83521 quarter-lattice segments for the full hot set plus a sub-lattice for 6 (quick) / 60 (thorough) random hot sets, several level combinations, against an exact-rational oracle including the order of the centres"}

var propertyPlans = map[string]*PropertyPlan{
	"C17": {ID: "C17",
		NotDecided: []string{},
		Assumptions: []string{"uint is 64 bits wide"},
	},
}

func init() {
	propertyPlans["C09"] = &PropertyPlan{ID: "C09",
		NotDecided:  []string{},
		Assumptions: []string{"float64 ordinates and the conversion x*1e10 -> int64 are modelled over the reals (exact); ordinates within +-8e8 units"},
	}
}

func init() {
	propertyPlans["C02"] = &PropertyPlan{ID: "C02",
		Extra: func(cc *checkCtx) *extraResult {
			return cc.runOverlayTests([]overlayTest{{Name: "lineIntersects-lattice", Level: "bounded", Src: "lineintersects_lattice_test.go", PkgRel: "pointindex", Run: "^TestGvcLineIntersectsLattice$",
				Bound: "sanity cross-check of the specification, not counted as proved: all 83521 segments with endpoints on the quarter-pixel lattice of a 4x4 pixel window against exact rational clipping"},
				descentLattice})
		},
		NotDecided: []string{"order of travel of the returned centres is only checked by the bounded stand-in descent-lattice", "second sentence (non-collapsing polygon = concatenation of routed edges)"},
	}
	propertyPlans["C14"] = &PropertyPlan{ID: "C14",
		NotDecided: []string{"that a tile matrix set accepted by validation has root 1x1 and a power-of-two tile width (IsQuadTree does not check it); for the 14 built-in sets this is checked on the data (extra, exhaustive-data)"},
		Assumptions: []string{"float64 as real numbers; strconv.Atoi as an uninterpreted function of the id string; the JSON decoder guarantees a point of origin and a positive cell size for every tile matrix"},
		Extra: func(cc *checkCtx) *extraResult {
			return cc.runOverlayTests([]overlayTest{{Name: "embedded-tile-matrix-sets", Level: "exhaustive-data", Src: "c14_embedded_test.go", PkgRel: "", Run: "^TestGvcC14Embedded$",
				Bound: "all 14 embedded documents x every tile matrix id: validateTileMatrixSet run on the real code; accepted sets re-checked independently incl. root 1x1, power-of-two tiles and pixel size = cell size / 16"}})
		},
	}
}

func init() {
	propertyPlans["C15"] = &PropertyPlan{ID: "C15",
		NotDecided: []string{"bounding box == span from corner(0,0) to corner(width,height) exactly (double rounding at exact ties; identity not proved)",
			"points closer than 1e-9 to a tile border", "IEEE-754 rounding of the float64 operations (float64 is treated as a real number)",
			"the contents of the EPSG axis table (data); axisOrderIsLatLon (regular expressions) is trusted"},
		Assumptions: []string{"float64 treated as real numbers", "points less than 9e18 tiles away from the origin (uint(x) of larger values is implementation-defined)"},
	}
}

var totalSmall = overlayTest{Name: "snap-total-small", Level: "bounded", Src: "c06_total_small_test.go", PkgRel: "snap", Run: "^TestGvcC06TotalSmall$",
	Bound: "bounded stand-in for the ring assembly (kmpDeduplicate, splitRing, dedupeInnersOuters, matchInnersToPolygons, RemoveSequences) and the no-points-found guard: the real SnapPolygon on every single ring of 1..5 (quick) / 1..6 (thorough) vertices over a 3x3 lattice of pixel centres, corners and border points, 3 id sets x 4 flag combinations, plus 20000 / 300000 random polygons of up to 3 rings; a panic or a run over 5 s fails"}

var ringAssembly = overlayTest{Name: "ring-assembly-small-alphabet", Level: "bounded", Src: "c06_ring_assembly_test.go", PkgRel: "snap", Run: "^TestGvcC06RingAssembly$",
	Bound: "bounded stand-in for the ring assembly: the real cleanupNewRing (kmpDeduplicate + splitRing) and kmpDeduplicate on EVERY ring without equal neighbours of length 0..15 (quick) / 0..17 (thorough) over 3 pixel centres and 0..10 / 0..11 over 4, as outer and as inner ring, plus 100000 / 800000 pseudo-random zig-zag rings of 4..40 vertices over 6 points and 600000 / 5000000 word rings (a random word repeated and reversed, 8..47 vertices); per input: no panic, returns within 5 s, every returned vertex is an input vertex"}

var c05Rings = overlayTest{Name: "ring-clauses-small", Level: "bounded", Src: "c05_rings_small_test.go", PkgRel: "snap", Run: "^TestGvcC05RingsSmall$",
	Bound: "bounded stand-in for the ring clauses of C05 (ring assembly, outside the verifier's reach): the real SnapPolygon on every single ring of 3..5 (quick) / 3..6 (thorough) vertices over a 3x3 lattice of pixel centres and on 30000 / 400000 random polygons of 1..3 rings over a 6x6 lattice, id sets {1} and {0,1}, all four flag combinations; per returned polygon: orientation of rings with non-zero area, no repeated closing vertex, no equal neighbours, no vertex visited twice, at least three vertices without keep-points-and-lines, and the with/without relation of that option. Plus 4000 / 60000 spiky rings each on NetherlandsRDNewQuad id 14 and WebMercatorQuad id 17 for the clauses decidable exactly on floats (no vertex twice, no equal neighbours, at least three vertices): the domain of the repaired defect F4"}

var c08Independence = overlayTest{Name: "alone-vs-together-small", Level: "bounded", Src: "c08_independence_small_test.go", PkgRel: "snap", Run: "^TestGvcC08Independence$",
	Bound: "bounded stand-in for the second sentence of C08 (a relation between two executions): the real SnapPolygon on every single ring of 3..5 (quick) / 3..6 (thorough) vertices over a 3x3 lattice of centres, corners and off-centre points, and on 30000 / 400000 random polygons of 1..3 rings over a 96x96 lattice, all four flag combinations, on a round dyadic grid with two tile matrices: result[id] for {id} alone must equal result[id] for {0,1}"}

func init() {
	propertyPlans["C06"] = &PropertyPlan{ID: "C06",
		AlsoFuncs: []string{"snap.SnapPolygon", "mapslicehelp.RemoveSequences", "mapslicehelp.LastMatch", "mapslicehelp.DeleteFromSliceByIndex", "mapslicehelp.ReverseClone", "snap.ringsAreEqual", "snap.kmpSearchAll", "snap.dedupeInnersOuters", "snap.reverseWindingOrderIfConfigured", "snap.ringContains", "geomhelp.RayIntersect", "geomhelp.Shoelace"},
		NotDecided: []string{
			"that the bodies of kmpDeduplicate, splitRing, matchInnersToPolygons, sortPolyIdxsByOuterAreaDesc neither panic nor loop: outside the verifier's reach (append into a re-sliced ring; indices read back from ordered/sorted map library objects), only the bounded stand-ins ring-assembly-small-alphabet and snap-total-small. Their helpers kmpTable, kmpSearch, kmpSearchAll, RemoveSequences, ReverseClone, DeleteFromSliceByIndex, LastMatch, ringsAreEqual, ringContains, RayIntersect, Shoelace, ensureCorrectWindingOrder, outersToPolygons ARE proved safe and terminating, and so are dedupeInnersOuters (its own indexing and its i / j loops; the only panic left in it is ringsAreEqual on two empty rings, characterised by a panics clause) and reverseWindingOrderIfConfigured",
			"termination of the walk over the linked list of the ordered-map library in dedupeInnersOuters (for p := Oldest(); p != nil; p = p.Next()): the library object is opaque, the list is assumed finite",
			"time bound (polynomial in the vertex count): termination of every loop of the verified functions is proved by decreases clauses, no complexity statement",
			"tile matrices whose pixel level exceeds 32: known finding F6 (excluded by the precondition of SnapPolygon's contract)",
			"polygons inside the extent but outside the pixel grid (the strip of the reported deviation at the right / top edge of grids that do not divide evenly): known finding F10; the claim is for polygons inside the GRID (C09 makes the code reject the others)"},
		Assumptions: []string{"preconditions of SnapPolygon's contract (ids in [0,1000], indexable tile matrix set, level <= 32, |ordinate| < 2e8, bounding box of matrix 0 at least as tall as the grid square)",
			"trusted leaves kmpDeduplicate, splitRing, matchInnersToPolygons (ring assembly) and CountVals (count over an opaque library list): only that they return (or panic) without touching the index; callers treat their panic as possible", "wk8/go-ordered-map objects are opaque: constructors, Set, Len, Oldest, Next return arbitrary values, do not panic and have no effect on program state; math.Nextafter(x, +Inf) > x; slices.Reverse reverses in place"},
		Extra: func(cc *checkCtx) *extraResult { return cc.runOverlayTests([]overlayTest{ringAssembly, totalSmall}) },
		Demos: []findingDemo{{ID: "F6", Src: "f6_level_above_32_test.go", PkgRel: "snap", Run: "^TestGvcFindingF6$"},
			{ID: "F9", Src: "f9_overlapping_removal_ranges_test.go", PkgRel: "snap", Run: "^TestGvcFindingF9$"},
			{ID: "F10", Src: "f10_rim_between_grid_and_extent_test.go", PkgRel: "snap", Run: "^TestGvcFindingF10$"}},
	}
	propertyPlans["C08"] = &PropertyPlan{ID: "C08",
		NotDecided: []string{
			"second sentence (the geometry for a tile matrix is identical whether requested alone or together with others): a relation between two executions, only the bounded stand-in alone-vs-together-small; what is proved per call is that the lists of the descent for a level are exactly the stored pixels of that level met by the edge (C02 contracts), that per-level results never share a backing array (alias discipline of the verifier: append to a re-sliced slice is rejected), and the id <-> level mapping",
			"that two whole runs with different id sets return the same rings for a shared id: per level, the stored pixel of every vertex and its extent / centre are proved independent of the depth of the index on round grids (lemma level_indep over the coordinate formula of InsertPoint / insertCoord and the grid formula of indexGrid), and the descent returns exactly the stored pixels met; the composition into 'the two results are equal', through the ring assembly, is not a machine-checked theorem (bounded stand-in alone-vs-together-small)"},
		Assumptions: []string{"preconditions of SnapPolygon's contract"},
		Extra:       func(cc *checkCtx) *extraResult { return cc.runOverlayTests([]overlayTest{descentLattice, c08Independence}) },
	}
	propertyPlans["C05"] = &PropertyPlan{ID: "C05",
		NotDecided: []string{
			"orientation, closure, no repeated vertex, at least three vertices per ring, shell first: properties of the unverified ring assembly (trusted leaves), only the bounded stand-in ring-clauses-small on a dyadic grid; known defect F4 (float round trip in isHitMultiple) lives there and is outside that stand-in's domain",
			"the keep-points-and-lines relation between two runs (with and without the option): only the bounded stand-in ring-clauses-small"},
		Assumptions: []string{"preconditions of SnapPolygon's contract"},
		Extra:       func(cc *checkCtx) *extraResult { return cc.runOverlayTests([]overlayTest{c05Rings}) },
		Demos:       []findingDemo{{ID: "F4", Src: "f4_repeated_vertex_test.go", PkgRel: "snap", Run: "^TestGvcFindingF4$"}},
	}
	propertyPlans["C03"] = &PropertyPlan{ID: "C03",
		NotDecided: []string{
			"that the ring assembly only rearranges or drops the coordinates handed out by SnapClosestPoints (trusted leaves, no element-wise specification; bounded stand-in ring-assembly-small-alphabet only)",
			"second sentence, exactly as stated: what is proved (lemmas centre_dev, dev_remainder, centre_near_ideal over the contract of DeviationStats and the grid formula of indexGrid) is 0 <= ideal centre - index centre <= reported deviation + 2.5e-10 CRS units, the slack being the truncation of the two float corners of the extent and of the half pixel to the internal 1e-10 resolution; 'never exceeds the reported deviation' without that slack is not decided"},
		Assumptions: []string{"float64 as real numbers: centre / 1e10 is exact", "preconditions of SnapPolygon's contract"},
		Extra:       func(cc *checkCtx) *extraResult { return cc.runOverlayTests([]overlayTest{descentLattice, ringAssembly}) },
	}
}

func init() {
	propertyPlans["C12"] = &PropertyPlan{ID: "C12",
		NotDecided: []string{
			"everything behind writeFeatures: one row per feature in the table, the spatial index entries, the recorded extent, table name / columns / geometry type / spatial reference system (database/sql and cgo SQLite are outside the verified subset)",
			"that the sender closes the channel (termination of WriteFeatures): the receive is modelled with an arbitrary value and an arbitrary closed flag"},
		Assumptions: []string{"positive page size (precondition; a page size of 0 makes len(features) % pagesize panic)",
			"writeFeatures is a trusted leaf whose only modelled effect is the ghost log of the page it is given; its panic / exit (log.Fatalf) is treated as possible",
			"channel receive: arbitrary value and closed flag, received values recorded in the ghost list recv_inFeatures"},
	}
}
