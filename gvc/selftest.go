package main

import "fmt"

func runSelftest(args []string) int { fmt.Println("selftest: TODO"); return 0 }
