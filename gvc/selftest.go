package main

// `gvc selftest`: the must-fail / must-pass corpus. Every case is a patch to /repo that is applied through an
// overlay (no copy of the repository, nothing written into /repo) and the property check named by the case is run on
// it. A must-fail case has to end in exit status 1 with a VIOLATION line, a must-pass case in exit status 0.
// Run on every change of the engine or of the contracts; it is not part of the registered quick commands.

import (
	"encoding/json"
	"flag"
	"fmt"
	"os"
	"os/exec"
	"path/filepath"
	"sort"
	"strings"
	"sync"
)

type selfCase struct {
	Name     string `json:"name"`
	Property string `json:"property"`
	Patch    string `json:"patch"`  // path relative to the verif directory
	Expect   string `json:"expect"` // "fail" | "pass"
	Why      string `json:"why"`
}

func runSelftest(args []string) int {
	fs := flag.NewFlagSet("selftest", flag.ExitOnError)
	only := fs.String("only", "", "run only cases whose name contains this")
	par := fs.Int("j", 1, "cases in parallel (more than 1 loads the machine enough to make slow obligations time out)")
	fs.Parse(args)
	vd := filepath.Dir(specDirDefault())
	var cases []selfCase
	data, err := os.ReadFile(filepath.Join(vd, "selftest", "cases.json"))
	if err == nil {
		err = json.Unmarshal(data, &cases)
	}
	if err != nil {
		fmt.Println("selftest: cannot read selftest/cases.json:", err)
		return 2
	}
	// the confirmed seeded changes of claimed properties are must-fail cases as well (unless recorded as not detectable)
	claimed := map[string]bool{}
	var manifest struct {
		Checks []struct {
			PropertyID string `json:"property_id"`
		} `json:"checks"`
	}
	if d, err := os.ReadFile(filepath.Join(vd, "MANIFEST.json")); err == nil {
		json.Unmarshal(d, &manifest)
		for _, c := range manifest.Checks {
			claimed[c.PropertyID] = true
		}
	}
	seeds, _ := filepath.Glob(filepath.Join(vd, "seeded", "*", "patch.diff"))
	sort.Strings(seeds)
	for _, s := range seeds {
		name := filepath.Base(filepath.Dir(s))
		prop := strings.Split(name, "-")[0]
		if !claimed[prop] {
			continue
		}
		exp := "fail"
		if d, err := os.ReadFile(filepath.Join(filepath.Dir(s), "meta.json")); err == nil {
			var m struct {
				Undetectable string `json:"undetectable_because"`
			}
			json.Unmarshal(d, &m)
			if m.Undetectable != "" {
				continue
			}
		}
		rel, _ := filepath.Rel(vd, s)
		cases = append(cases, selfCase{Name: "seeded/" + name, Property: prop, Patch: rel, Expect: exp, Why: "seeded change"})
	}
	type outcome struct {
		c    selfCase
		ok   bool
		info string
	}
	results := make([]outcome, len(cases))
	var wg sync.WaitGroup
	sem := make(chan struct{}, *par)
	for i, c := range cases {
		if *only != "" && !strings.Contains(c.Name, *only) {
			results[i] = outcome{c: c, ok: true, info: "skipped"}
			continue
		}
		wg.Add(1)
		go func(i int, c selfCase) {
			defer wg.Done()
			sem <- struct{}{}
			defer func() { <-sem }()
			ok, info := runSelfCase(vd, c)
			results[i] = outcome{c, ok, info}
		}(i, c)
	}
	wg.Wait()
	bad := 0
	for _, r := range results {
		if r.info == "skipped" {
			continue
		}
		status := "ok  "
		if !r.ok {
			status = "BAD "
			bad++
		}
		fmt.Printf("%s %-28s %-4s expect=%-4s %s\n", status, r.c.Name, r.c.Property, r.c.Expect, r.info)
	}
	fmt.Printf("selftest: %d cases, %d not as expected\n", len(cases), bad)
	if bad > 0 {
		return 1
	}
	return 0
}

func runSelfCase(vd string, c selfCase) (bool, string) {
	dir, err := os.MkdirTemp("", "gvc-self-")
	if err != nil {
		return false, err.Error()
	}
	defer os.RemoveAll(dir)
	patch := filepath.Join(vd, c.Patch)
	pd, err := os.ReadFile(patch)
	if err != nil {
		return false, err.Error()
	}
	// files touched by the patch
	repl := map[string]string{}
	for _, l := range strings.Split(string(pd), "\n") {
		if strings.HasPrefix(l, "+++ b/") {
			rel := strings.TrimSpace(l[len("+++ b/"):])
			src := filepath.Join("/repo", rel)
			dst := filepath.Join(dir, strings.ReplaceAll(rel, "/", "__"))
			data, err := os.ReadFile(src)
			if err != nil {
				return false, "patch touches a file that does not exist: " + rel
			}
			os.WriteFile(dst, data, 0o644)
			repl[src] = dst
		}
	}
	// apply the patch to the copies: build a mirror tree so that `patch -p1` finds them
	mirror := filepath.Join(dir, "tree")
	for src := range repl {
		rel, _ := filepath.Rel("/repo", src)
		os.MkdirAll(filepath.Dir(filepath.Join(mirror, rel)), 0o755)
		data, _ := os.ReadFile(src)
		os.WriteFile(filepath.Join(mirror, rel), data, 0o644)
	}
	cmd := exec.Command("patch", "-p1", "-s", "-i", patch)
	cmd.Dir = mirror
	if out, err := cmd.CombinedOutput(); err != nil {
		return false, "patch does not apply: " + truncate(string(out), 200)
	}
	for src := range repl {
		rel, _ := filepath.Rel("/repo", src)
		repl[src] = filepath.Join(mirror, rel)
	}
	ov := filepath.Join(dir, "overlay.json")
	os.WriteFile(ov, mustJSON(repl), 0o644)
	exe, _ := os.Executable()
	run := exec.Command(exe, "check", "-p", c.Property, "-no-evidence", "-q", "-overlay", ov, "-verif", vd, "-replays", filepath.Join(dir, "replays"))
	out, _ := run.CombinedOutput()
	code := run.ProcessState.ExitCode()
	viol := strings.Count(string(out), "VIOLATION")
	confirmed := 0
	for _, l := range strings.Split(string(out), "\n") {
		if strings.HasPrefix(l, "VIOLATION") && !strings.Contains(l, "no-failing-input-found") {
			confirmed++
		}
	}
	info := fmt.Sprintf("exit=%d violations=%d (with failing input: %d)", code, viol, confirmed)
	switch c.Expect {
	case "fail":
		return code == 1 && viol > 0, info
	case "pass":
		if code != 0 {
			info += " :: " + truncate(strings.ReplaceAll(string(out), "\n", " | "), 300)
		}
		return code == 0, info
	}
	return false, "bad expectation"
}
