package main

// Replay of solver models against the real code: an in-package test is generated, injected with
// `go test -overlay` (nothing is written into /repo), the real function is run on the model's inputs,
// and the violated clause is evaluated on the real inputs and outputs by the solver (all values fixed).

import (
	"bytes"
	"encoding/json"
	"fmt"
	"go/types"
	"math/big"
	"os"
	"os/exec"
	"path/filepath"
	"regexp"
	"strings"

	"golang.org/x/tools/go/ssa"
)

type ReplayResult struct {
	Confirmed  bool              `json:"confirmed"`
	Summary    string            `json:"summary"`
	Inputs     map[string]string `json:"inputs_go,omitempty"`
	Model      map[string]string `json:"model,omitempty"`
	TestSource string            `json:"test_source,omitempty"`
	TestOutput string            `json:"test_output,omitempty"`
	Verdict    string            `json:"verdict,omitempty"`
	EvalQuery  string            `json:"clause_evaluation_query,omitempty"`
}

// ---- S-expressions ----

type sx struct {
	atom string
	list []*sx
}

func (s *sx) String() string {
	if s.list == nil {
		return s.atom
	}
	var parts []string
	for _, e := range s.list {
		parts = append(parts, e.String())
	}
	return "(" + strings.Join(parts, " ") + ")"
}

func parseSx(s string) ([]*sx, error) {
	var stack [][]*sx
	cur := []*sx{}
	i := 0
	for i < len(s) {
		c := s[i]
		switch {
		case c == ' ' || c == '\n' || c == '\t' || c == '\r':
			i++
		case c == ';':
			for i < len(s) && s[i] != '\n' {
				i++
			}
		case c == '(':
			stack = append(stack, cur)
			cur = []*sx{}
			i++
		case c == ')':
			if len(stack) == 0 {
				return nil, fmt.Errorf("unbalanced )")
			}
			l := &sx{list: cur}
			if l.list == nil {
				l.list = []*sx{}
			}
			cur = append(stack[len(stack)-1], l)
			stack = stack[:len(stack)-1]
			i++
		case c == '|':
			j := strings.IndexByte(s[i+1:], '|')
			if j < 0 {
				return nil, fmt.Errorf("unbalanced |")
			}
			cur = append(cur, &sx{atom: s[i : i+j+2]})
			i += j + 2
		case c == '"':
			j := strings.IndexByte(s[i+1:], '"')
			if j < 0 {
				return nil, fmt.Errorf("unbalanced quote")
			}
			cur = append(cur, &sx{atom: s[i : i+j+2]})
			i += j + 2
		default:
			j := i
			for j < len(s) && !strings.ContainsRune(" \n\t\r()", rune(s[j])) {
				j++
			}
			cur = append(cur, &sx{atom: s[i:j]})
			i = j
		}
	}
	if len(stack) != 0 {
		return nil, fmt.Errorf("unbalanced (")
	}
	return cur, nil
}

// expandLets substitutes (let ((x v) ...) body) forms.
func expandLets(v *sx, env map[string]*sx) *sx {
	if v.list == nil {
		if r, ok := env[v.atom]; ok {
			return r
		}
		return v
	}
	if len(v.list) == 3 && v.list[0].atom == "let" && v.list[1].list != nil {
		ne := map[string]*sx{}
		for k, x := range env {
			ne[k] = x
		}
		for _, b := range v.list[1].list {
			if b.list != nil && len(b.list) == 2 {
				ne[b.list[0].atom] = expandLets(b.list[1], env)
			}
		}
		return expandLets(v.list[2], ne)
	}
	out := &sx{list: make([]*sx, len(v.list))}
	for i, e := range v.list {
		out.list[i] = expandLets(e, env)
	}
	return out
}

// modelInt: integer value of an Int / BV / Real-integer term
func modelInt(v *sx) (*big.Int, bool) {
	if v.list == nil {
		a := v.atom
		if strings.HasPrefix(a, "#b") {
			k, ok := new(big.Int).SetString(a[2:], 2)
			return k, ok
		}
		if strings.HasPrefix(a, "#x") {
			k, ok := new(big.Int).SetString(a[2:], 16)
			return k, ok
		}
		if strings.HasSuffix(a, ".0") {
			a = a[:len(a)-2]
		}
		k, ok := new(big.Int).SetString(a, 10)
		return k, ok
	}
	if len(v.list) == 2 && v.list[0].atom == "-" {
		k, ok := modelInt(v.list[1])
		if ok {
			return new(big.Int).Neg(k), true
		}
	}
	if len(v.list) == 3 && v.list[0].atom == "_" && strings.HasPrefix(v.list[1].atom, "bv") {
		k, ok := new(big.Int).SetString(v.list[1].atom[2:], 10)
		return k, ok
	}
	return nil, false
}

func modelRat(v *sx) (*big.Rat, bool) {
	if k, ok := modelInt(v); ok {
		return new(big.Rat).SetInt(k), true
	}
	if v.list == nil {
		r, ok := new(big.Rat).SetString(v.atom)
		return r, ok
	}
	if len(v.list) == 2 && v.list[0].atom == "-" {
		r, ok := modelRat(v.list[1])
		if ok {
			return r.Neg(r), true
		}
	}
	if len(v.list) == 3 && v.list[0].atom == "/" {
		a, ok1 := modelRat(v.list[1])
		b, ok2 := modelRat(v.list[2])
		if ok1 && ok2 && b.Sign() != 0 {
			return a.Quo(a, b), true
		}
	}
	return nil, false
}

// goLit converts a model value to a Go expression of type t.
func (rp *replayer) goLit(v *sx, t types.Type) (string, error) {
	q := func(t types.Type) string { return types.TypeString(t, rp.qualifier) }
	switch u := t.Underlying().(type) {
	case *types.Basic:
		switch {
		case u.Info()&types.IsBoolean != 0:
			if v.atom == "true" || v.atom == "false" {
				return v.atom, nil
			}
		case u.Info()&types.IsInteger != 0:
			k, ok := modelInt(v)
			if !ok {
				if r, ok2 := modelRat(v); ok2 && r.IsInt() {
					k, ok = r.Num(), true
				}
			}
			if ok {
				if !isUnsigned(u) && v.list == nil && (strings.HasPrefix(v.atom, "#") || false) {
					k = signedVal(k, intWidth(u))
				}
				if v.list != nil && len(v.list) == 3 && v.list[0].atom == "_" && !isUnsigned(u) {
					k = signedVal(k, intWidth(u))
				}
				lo, hi := intRange(u)
				if k.Cmp(lo) < 0 || k.Cmp(hi) > 0 {
					return "", fmt.Errorf("model value %s outside %s", k, u.Name())
				}
				return fmt.Sprintf("%s(%s)", q(t), k.String()), nil
			}
		case u.Info()&types.IsFloat != 0:
			r, ok := modelRat(v)
			if ok {
				f, _ := r.Float64()
				if new(big.Rat).SetFloat64(f).Cmp(r) != 0 {
					return "", fmt.Errorf("model value %s is not a float64", r.RatString())
				}
				return fmt.Sprintf("%s(%s)", q(t), fmtFloat(f)), nil
			}
		case u.Info()&types.IsString != 0:
			return `""`, nil
		}
	case *types.Array:
		if v.list != nil && len(v.list) == int(u.Len())+1 {
			var parts []string
			for _, e := range v.list[1:] {
				s, err := rp.goLit(e, u.Elem())
				if err != nil {
					return "", err
				}
				parts = append(parts, s)
			}
			return fmt.Sprintf("%s{%s}", q(t), strings.Join(parts, ", ")), nil
		}
	case *types.Struct:
		if v.list != nil && len(v.list) == u.NumFields()+1 {
			var parts []string
			for i, e := range v.list[1:] {
				s, err := rp.goLit(e, u.Field(i).Type())
				if err != nil {
					return "", err
				}
				parts = append(parts, fmt.Sprintf("%s: %s", u.Field(i).Name(), s))
			}
			return fmt.Sprintf("%s{%s}", q(t), strings.Join(parts, ", ")), nil
		}
		if v.list == nil && u.NumFields() == 0 {
			return q(t) + "{}", nil
		}
	case *types.Pointer:
		if v.list == nil && strings.HasPrefix(v.atom, "nil_") {
			return "nil", nil
		}
		if v.list != nil && len(v.list) == 2 {
			s, err := rp.goLit(v.list[1], u.Elem())
			if err != nil {
				return "", err
			}
			rp.helpers["ptr"] = "func gvcPtr[T any](v T) *T { return &v }\n"
			return fmt.Sprintf("gvcPtr[%s](%s)", q(u.Elem()), s), nil
		}
	case *types.Slice:
		// (mk_Sl arr len nil)
		if v.list != nil && len(v.list) == 4 {
			if v.list[3].atom == "true" {
				return "nil", nil
			}
			off, ok1 := big.NewInt(0), true
			ln, ok2 := modelInt(v.list[2])
			if ok1 && ok2 && ln.IsInt64() && ln.Int64() <= 64 {
				def, stores, ok := arrayModel(v.list[1])
				if ok {
					var parts []string
					for i := int64(0); i < ln.Int64(); i++ {
						key := new(big.Int).Add(off, big.NewInt(i)).String()
						ev := def
						if s, has := stores[key]; has {
							ev = s
						}
						s, err := rp.goLit(ev, u.Elem())
						if err != nil {
							return "", err
						}
						parts = append(parts, s)
					}
					return fmt.Sprintf("%s{%s}", q(t), strings.Join(parts, ", ")), nil
				}
			}
		}
	case *types.Map:
		// (mk_Mp dom val card nil)
		if v.list != nil && len(v.list) == 5 {
			if v.list[4].atom == "true" {
				return "nil", nil
			}
			ddef, dst, ok1 := arrayModel(v.list[1])
			vdef, vst, ok2 := arrayModel(v.list[2])
			if ok1 && ok2 && ddef != nil && ddef.atom == "false" {
				var parts []string
				for k, dv := range dst {
					if dv.atom != "true" {
						continue
					}
					ks, err := parseSx(k)
					if err != nil || len(ks) != 1 {
						return "", fmt.Errorf("map key")
					}
					kl, err := rp.goLit(ks[0], u.Key())
					if err != nil {
						return "", err
					}
					ev := vdef
					if s, has := vst[k]; has {
						ev = s
					}
					el, err := rp.goLit(ev, u.Elem())
					if err != nil {
						return "", err
					}
					parts = append(parts, kl+": "+el)
				}
				return fmt.Sprintf("%s{%s}", q(t), strings.Join(parts, ", ")), nil
			}
			rp.notes = append(rp.notes, "a map value of the model could not be reproduced; an empty map is used instead")
			return fmt.Sprintf("%s{}", q(t)), nil
		}
	case *types.Interface:
		if v.list == nil && v.atom == "nil_Iface" {
			return "nil", nil
		}
	}
	return "", fmt.Errorf("cannot turn model value %s into Go type %s", truncate(v.String(), 80), t)
}

func fmtFloat(f float64) string {
	s := fmt.Sprintf("%v", f)
	if !strings.ContainsAny(s, ".eE") {
		s += ".0"
	}
	return s
}

// arrayModel parses ((as const T) d) and (store a k v) chains.
func arrayModel(v *sx) (def *sx, stores map[string]*sx, ok bool) {
	stores = map[string]*sx{}
	cur := v
	var chain [][2]*sx
	for {
		if cur.list != nil && len(cur.list) == 4 && cur.list[0].atom == "store" {
			chain = append(chain, [2]*sx{cur.list[2], cur.list[3]})
			cur = cur.list[1]
			continue
		}
		if cur.list != nil && len(cur.list) == 2 && cur.list[0].list != nil && len(cur.list[0].list) == 3 && cur.list[0].list[0].atom == "as" && cur.list[0].list[1].atom == "const" {
			def = cur.list[1]
			break
		}
		return nil, nil, false
	}
	for i := len(chain) - 1; i >= 0; i-- {
		stores[chain[i][0].String()] = chain[i][1]
	}
	return def, stores, true
}

type replayer struct {
	cc        *checkCtx
	pkg       *types.Package
	qualifier types.Qualifier
	helpers   map[string]string
	printers  map[string]string // type string -> function name
	printSrc  []string
	notes     []string
	vc        *VC
	imports   map[string]bool
}

// printerFor generates Go code that renders a value of type t as an SMT term of sort vc.SortOf(t).
func (rp *replayer) printerFor(t types.Type) (string, error) {
	key := types.TypeString(t, nil)
	if n, ok := rp.printers[key]; ok {
		return n, nil
	}
	name := fmt.Sprintf("gvcSmt%d", len(rp.printers))
	rp.printers[key] = name
	q := types.TypeString(t, rp.qualifier)
	s := rp.vc.SortOf(t)
	var body string
	switch u := t.Underlying().(type) {
	case *types.Basic:
		switch {
		case u.Info()&types.IsBoolean != 0:
			body = `if v { return "true" }; return "false"`
		case u.Info()&types.IsInteger != 0:
			switch s.Kind {
			case KBV:
				body = fmt.Sprintf(`return fmt.Sprintf("(_ bv%%d %d)", uint64(v)%s)`, s.Width, map[bool]string{true: "", false: ""}[true])
				if s.Width < 64 {
					body = fmt.Sprintf(`return fmt.Sprintf("(_ bv%%d %d)", uint64(v)&((1<<%d)-1))`, s.Width, s.Width)
				}
			case KReal:
				body = `if v < 0 { return fmt.Sprintf("(- %d.0)", new(big.Int).Neg(big.NewInt(int64(v)))) }; return fmt.Sprintf("%d.0", v)`
				rp.imports["math/big"] = true
			default:
				if isUnsigned(u) {
					body = `return fmt.Sprintf("%d", v)`
				} else {
					body = `if v < 0 { return fmt.Sprintf("(- %s)", new(big.Int).Neg(big.NewInt(int64(v))).String()) }; return fmt.Sprintf("%d", v)`
					rp.imports["math/big"] = true
				}
			}
		case u.Info()&types.IsFloat != 0:
			rp.imports["math/big"] = true
			rp.imports["math"] = true
			body = `if math.IsNaN(float64(v)) || math.IsInf(float64(v), 0) { return "NaN" }; r := new(big.Rat).SetFloat64(float64(v)); n, d := r.Num(), r.Denom(); s := fmt.Sprintf("(/ %s.0 %s.0)", new(big.Int).Abs(n).String(), d.String()); if n.Sign() < 0 { s = "(- " + s + ")" }; return s`
		default:
			return "", fmt.Errorf("no SMT printer for %s", t)
		}
	case *types.Array:
		ep, err := rp.printerFor(u.Elem())
		if err != nil {
			return "", err
		}
		body = fmt.Sprintf(`s := "(%s"; for _, e := range v { s += " " + %s(e) }; return s + ")"`, s.Ctor, ep)
	case *types.Struct:
		body = fmt.Sprintf(`s := "(%s"`, s.Ctor)
		if u.NumFields() == 0 {
			body = fmt.Sprintf(`return "%s"`, s.Ctor)
			break
		}
		for i := 0; i < u.NumFields(); i++ {
			fp, err := rp.printerFor(u.Field(i).Type())
			if err != nil {
				return "", err
			}
			body += fmt.Sprintf(`; s += " " + %s(v.%s)`, fp, u.Field(i).Name())
		}
		body += `; return s + ")"`
	case *types.Slice:
		ep, err := rp.printerFor(u.Elem())
		if err != nil {
			return "", err
		}
		zero := rp.vc.zeroTerm(s.Fields[0].Sort)
		body = fmt.Sprintf(`a := %q; for i, e := range v { a = fmt.Sprintf("(store %%s %%d %%s)", a, i, %s(e)) }; return fmt.Sprintf("(%s %%s %%d %%v)", a, len(v), v == nil)`, zero.S, ep, s.Ctor)
	case *types.Map:
		kp, err := rp.printerFor(u.Key())
		if err != nil {
			return "", err
		}
		ep, err := rp.printerFor(u.Elem())
		if err != nil {
			return "", err
		}
		zd := rp.vc.zeroTerm(s.Fields[0].Sort)
		zv := rp.vc.zeroTerm(s.Fields[1].Sort)
		body = fmt.Sprintf(`d := %q; a := %q; for k, e := range v { d = fmt.Sprintf("(store %%s %%s true)", d, %s(k)); a = fmt.Sprintf("(store %%s %%s %%s)", a, %s(k), %s(e)) }; return fmt.Sprintf("(%s %%s %%s %%d %%v)", d, a, len(v), v == nil)`, zd.S, zv.S, kp, kp, ep, s.Ctor)
	case *types.Pointer:
		ep, err := rp.printerFor(u.Elem())
		if err != nil {
			return "", err
		}
		body = fmt.Sprintf(`if v == nil { return %q }; return "(%s " + %s(*v) + ")"`, s.Alt, s.Ctor, ep)
	case *types.Interface:
		body = `if v == nil { return "nil_Iface" }; return fmt.Sprintf("(mk_Iface %d 0)", gvcTypeID(v))`
		rp.helpers["typeid"] = "GVCTYPEID"
	default:
		return "", fmt.Errorf("no SMT printer for %s", t)
	}
	rp.printSrc = append(rp.printSrc, fmt.Sprintf("func %s(v %s) string { %s }\n", name, q, body))
	return name, nil
}

var getValueRe = regexp.MustCompile(`(?s)^\s*\(\(`)

// parseModel splits the (get-value ...) answer into one value per requested term.
func parseModel(model string, n int) ([]*sx, error) {
	// drop lines that are solver chatter
	var keep []string
	for _, l := range strings.Split(model, "\n") {
		if strings.Contains(l, "WARNING") || strings.HasPrefix(l, "(error") {
			continue
		}
		keep = append(keep, l)
	}
	forms, err := parseSx(strings.Join(keep, "\n"))
	if err != nil {
		return nil, err
	}
	for _, f := range forms {
		if f.list != nil && len(f.list) == n {
			out := make([]*sx, n)
			ok := true
			for i, pair := range f.list {
				if pair.list == nil || len(pair.list) != 2 {
					ok = false
					break
				}
				out[i] = expandLets(pair.list[1], map[string]*sx{})
			}
			if ok {
				return out, nil
			}
		}
	}
	return nil, fmt.Errorf("no model values in solver output")
}

func (cc *checkCtx) replayObligation(f *failure) *ReplayResult {
	rr := &ReplayResult{Inputs: map[string]string{}, Model: map[string]string{}}
	defer func() {
		if r := recover(); r != nil {
			rr.Summary = fmt.Sprintf("replay machinery failed: %v", r)
			rr.Confirmed = false
		}
	}()
	o := f.obl
	fn := cc.p.findFunc(o.Func)
	if fn == nil || len(o.Inputs) == 0 {
		rr.Summary = "no executable replay for this obligation"
		return rr
	}
	vals, err := parseModel(f.res.Model, len(o.Inputs))
	if err != nil {
		rr.Summary = "could not read the model: " + err.Error()
		return rr
	}
	fc := cc.p.contracts.Funcs[o.Func]
	pkg := fn.Pkg.Pkg
	rp := &replayer{cc: cc, pkg: pkg, helpers: map[string]string{}, printers: map[string]string{}, imports: map[string]bool{"fmt": true, "testing": true}}
	rp.qualifier = func(p *types.Package) string {
		if p == pkg {
			return ""
		}
		rp.imports[p.Path()] = true
		return p.Name()
	}
	rp.vc = NewVC(o.vc.Mode, "replay")
	rp.vc.lookupStruct = cc.p.lookupStructFn()
	var decl, callArgs []string
	var printIn []string
	for i, iv := range o.Inputs {
		rr.Model[iv.Name] = truncate(vals[i].String(), 400)
		if iv.Type == nil {
			continue
		}
		lit, err := rp.goLit(vals[i], derefForLit(iv.Type))
		if err != nil {
			rr.Summary = "model value not expressible as Go input: " + err.Error()
			return rr
		}
		rr.Inputs[iv.Name] = lit
		vn := "in_" + sanitize(iv.Name)
		if _, isPtr := iv.Type.Underlying().(*types.Pointer); isPtr {
			decl = append(decl, fmt.Sprintf("%s_v := %s; %s := &%s_v", vn, lit, vn, vn))
			pn, err := rp.printerFor(iv.Type.Underlying().(*types.Pointer).Elem())
			if err != nil {
				rr.Summary = err.Error()
				return rr
			}
			printIn = append(printIn, fmt.Sprintf(`fmt.Printf("GVC-IN %s %%s\n", %s(*%s))`, iv.Name, pn, vn))
		} else {
			decl = append(decl, fmt.Sprintf("%s := %s", vn, lit))
			pn, err := rp.printerFor(iv.Type)
			if err != nil {
				rr.Summary = err.Error()
				return rr
			}
			printIn = append(printIn, fmt.Sprintf(`fmt.Printf("GVC-IN %s %%s\n", %s(%s))`, iv.Name, pn, vn))
		}
		callArgs = append(callArgs, vn)
	}
	// call expression
	sig := fn.Signature
	var call string
	if sig.Recv() != nil {
		call = fmt.Sprintf("%s.%s(%s)", callArgs[0], fn.Name(), strings.Join(callArgs[1:], ", "))
	} else {
		call = fmt.Sprintf("%s(%s)", fn.Name(), strings.Join(callArgs, ", "))
	}
	var resNames, printOut []string
	for i := 0; i < sig.Results().Len(); i++ {
		rn := fmt.Sprintf("r%d", i)
		resNames = append(resNames, rn)
		pn, err := rp.printerFor(sig.Results().At(i).Type())
		if err != nil {
			rr.Summary = err.Error()
			return rr
		}
		printOut = append(printOut, fmt.Sprintf(`fmt.Printf("GVC-OUT %d %%s\n", %s(%s))`, i, pn, rn))
	}
	// post-state of pointer / map / slice parameters
	var printPost []string
	for _, iv := range o.Inputs {
		if iv.Type == nil {
			continue
		}
		vn := "in_" + sanitize(iv.Name)
		switch u := iv.Type.Underlying().(type) {
		case *types.Pointer:
			pn, _ := rp.printerFor(u.Elem())
			printPost = append(printPost, fmt.Sprintf(`fmt.Printf("GVC-POST %s %%s\n", %s(*%s))`, iv.Name, pn, vn))
		case *types.Map, *types.Slice:
			pn, _ := rp.printerFor(iv.Type)
			printPost = append(printPost, fmt.Sprintf(`fmt.Printf("GVC-POST %s %%s\n", %s(%s))`, iv.Name, pn, vn))
		}
	}
	var src bytes.Buffer
	fmt.Fprintf(&src, "package %s\n\nimport (\n", pkg.Name())
	body := &bytes.Buffer{}
	fmt.Fprintf(body, "func TestGvcReplay(t *testing.T) {\n")
	for _, d := range decl {
		fmt.Fprintf(body, "\t%s\n", d)
	}
	for _, p := range printIn {
		fmt.Fprintf(body, "\t%s\n", p)
	}
	fmt.Fprintf(body, "\tdefer func() {\n\t\tif r := recover(); r != nil {\n\t\t\tfmt.Printf(\"GVC-PANIC %%v\\n\", r)\n\t\t}\n\t}()\n")
	if len(resNames) > 0 {
		fmt.Fprintf(body, "\t%s := %s\n", strings.Join(resNames, ", "), call)
	} else {
		fmt.Fprintf(body, "\t%s\n", call)
	}
	for _, p := range printOut {
		fmt.Fprintf(body, "\t%s\n", p)
	}
	for _, p := range printPost {
		fmt.Fprintf(body, "\t%s\n", p)
	}
	fmt.Fprintf(body, "\tfmt.Println(\"GVC-DONE\")\n}\n\n")
	for _, h := range sortedKeys(rp.helpers) {
		if rp.helpers[h] == "GVCTYPEID" {
			fmt.Fprintf(body, "func gvcTypeID(v any) int { return %s }\n", rp.typeIDSwitch())
		} else {
			body.WriteString(rp.helpers[h])
		}
	}
	for _, p := range rp.printSrc {
		body.WriteString(p)
	}
	for _, im := range sortedKeys(rp.imports) {
		fmt.Fprintf(&src, "\t%q\n", im)
	}
	src.WriteString(")\n\n")
	src.Write(body.Bytes())
	rr.TestSource = src.String()
	// run it through an overlay
	dir := scratch()
	testFile := filepath.Join(dir, fmt.Sprintf("gvc_replay_%d_test.go", len(rr.TestSource)))
	os.WriteFile(testFile, src.Bytes(), 0o644)
	pkgDir := filepath.Join(cc.repo, strings.TrimPrefix(strings.TrimPrefix(pkg.Path(), modulePath), "/"))
	repl := map[string]string{filepath.Join(pkgDir, "zz_gvc_replay_test.go"): testFile}
	for k, v := range cc.goOverlay {
		repl[k] = v
	}
	ov := map[string]any{"Replace": repl}
	ovFile := filepath.Join(dir, "overlay.json")
	os.WriteFile(ovFile, mustJSON(ov), 0o644)
	cmd := exec.Command("go", "test", "-overlay", ovFile, "-vet=off", "-count=1", "-timeout", "60s", "-run", "^TestGvcReplay$", "-v", ".")
	cmd.Dir = pkgDir
	cmd.Env = append(os.Environ(), "GOFLAGS=-mod=mod", "GOPROXY=off", "GOSUMDB=off", "GOTOOLCHAIN=local")
	out, _ := cmd.CombinedOutput()
	rr.TestOutput = truncate(string(out), 6000)
	outs := map[string]string{}
	panicked := ""
	done := false
	for _, l := range strings.Split(string(out), "\n") {
		l = strings.TrimSpace(l)
		switch {
		case strings.HasPrefix(l, "GVC-IN "), strings.HasPrefix(l, "GVC-OUT "), strings.HasPrefix(l, "GVC-POST "):
			parts := strings.SplitN(l, " ", 3)
			if len(parts) == 3 {
				outs[parts[0]+" "+parts[1]] = parts[2]
			}
		case strings.HasPrefix(l, "GVC-PANIC "):
			panicked = l[len("GVC-PANIC "):]
		case l == "GVC-DONE":
			done = true
		}
	}
	if !done && panicked == "" {
		rr.Summary = "the replay test did not run to completion (see test_output)"
		return rr
	}
	// does the real input satisfy the preconditions, and is the clause violated on the real outputs?
	verdict, query := cc.evalClauseConcretely(o, fc, fn, outs, panicked)
	rr.Verdict = verdict
	rr.EvalQuery = truncate(query, 4000)
	switch verdict {
	case "violated":
		rr.Confirmed = true
		if panicked != "" {
			rr.Summary = fmt.Sprintf("real code panics on the model's input: %s", truncate(panicked, 200))
		} else {
			rr.Summary = "real code run on the model's input; the clause evaluates to false on the real result"
		}
	default:
		rr.Summary = "real code run on the model's input: " + verdict
	}
	if len(rp.notes) > 0 {
		rr.Summary += " (" + strings.Join(rp.notes, "; ") + ")"
	}
	return rr
}

func derefForLit(t types.Type) types.Type {
	if p, ok := t.Underlying().(*types.Pointer); ok {
		return p.Elem()
	}
	return t
}

func (rp *replayer) typeIDSwitch() string { return "0" }

// evalClauseConcretely: bind parameters, results and pre/post state to the values observed on the real code,
// then ask the solver whether requires hold and the clause is false.
func (cc *checkCtx) evalClauseConcretely(o *Obligation, fc *FuncContract, fn *ssa.Function, outs map[string]string, panicked string) (string, string) {
	if fc == nil {
		return "no contract", ""
	}
	vc := NewVC(o.vc.Mode, "replay-eval")
	ex := newExec(cc.p, vc, cc.prop)
	ex.top = fc
	for _, pl := range fc.Preludes {
		ex.needPrelude(pl)
	}
	f := &Frame{ex: ex, fn: fn, fc: fc}
	pre := State{}
	post := State{}
	names := map[string]Val{}
	postNames := map[string]Val{}
	mk := func(text string, s *Sort) Term { return Term{S: text, Sort: s} }
	for _, prm := range fn.Params {
		in, ok := outs["GVC-IN "+prm.Name()]
		if !ok {
			return "input " + prm.Name() + " not observed", ""
		}
		if strings.Contains(in, "NaN") {
			return "NaN/Inf in input", ""
		}
		switch u := prm.Type().Underlying().(type) {
		case *types.Pointer:
			s := vc.SortOf(u.Elem())
			c := ex.newCell(prm.Name(), s, u.Elem())
			pre[c] = vc.Define("in_"+prm.Name(), mk(in, s))
			if p, ok := outs["GVC-POST "+prm.Name()]; ok {
				post[c] = vc.Define("post_"+prm.Name(), mk(p, s))
			} else {
				post[c] = pre[c]
			}
			names[prm.Name()] = Val{IsPtr: true, P: &LV{Cell: c}}
		case *types.Map, *types.Slice:
			s := vc.SortOf(prm.Type())
			c := ex.newCell(prm.Name(), s, prm.Type())
			pre[c] = vc.Define("in_"+prm.Name(), mk(in, s))
			if p, ok := outs["GVC-POST "+prm.Name()]; ok {
				post[c] = vc.Define("post_"+prm.Name(), mk(p, s))
			} else {
				post[c] = pre[c]
			}
			names[prm.Name()] = Val{T: pre[c], Origin: &LV{Cell: c}}
		default:
			s := vc.SortOf(prm.Type())
			names[prm.Name()] = Val{T: vc.Define("in_"+prm.Name(), mk(in, s))}
		}
	}
	_ = f
	old := &Scope{ex: ex, names: names, st: pre, bound: map[string]Term{}}
	old.old = old
	for _, lt := range fc.Lets {
		names[lt.Name] = Val{T: vc.Define("let_"+lt.Name, old.eval(lt.Expr))}
	}
	var reqs []Term
	for _, r := range fc.Requires {
		reqs = append(reqs, old.evalBool(r.Expr))
	}
	// 1. requires hold on the real input?
	reqObl := &Obligation{Name: "requires", Hyp: TTrue, Goal: And(reqs...), vc: vc, Prefix: len(vc.items)}
	r := Solve(reqObl.Query(false), 20, 0, nil)
	if r.Answer != Unsat {
		return "the constructed input does not satisfy the preconditions (" + r.Answer.String() + ")", reqObl.Query(false)
	}
	if panicked != "" {
		// panic: violated unless the contract allows it under this input
		if len(fc.Panics) > 0 {
			var ps []Term
			for _, pc := range fc.Panics {
				ps = append(ps, old.evalBool(pc.Expr))
			}
			po := &Obligation{Name: "panics", Hyp: TTrue, Goal: Or(ps...), vc: vc, Prefix: len(vc.items)}
			pr := Solve(po.Query(false), 20, 0, nil)
			if pr.Answer == Unsat {
				if o.Kind == "panics" && strings.HasSuffix(o.Name, "whenever") {
					return "panic is allowed by the contract for this input", po.Query(false)
				}
				return "panic is allowed by the contract for this input", po.Query(false)
			}
		}
		if fc.MayPanic {
			return "panic allowed (maypanic)", ""
		}
		return "violated", ""
	}
	if o.Kind == "panics" && strings.HasSuffix(o.Name, "whenever") {
		// the contract demands a panic for this input and the real code returned normally
		var ps []Term
		for _, pc := range fc.Panics {
			ps = append(ps, old.evalBool(pc.Expr))
		}
		po := &Obligation{Name: "panics", Hyp: TTrue, Goal: Or(ps...), vc: vc, Prefix: len(vc.items)}
		pr := Solve(po.Query(false), 20, 0, nil)
		if pr.Answer == Unsat {
			return "violated", po.Query(false)
		}
		return "the panic condition does not hold for the constructed input", po.Query(false)
	}
	if o.Kind != "post" {
		return "no panic on the real code", ""
	}
	for k, v := range names {
		if !v.IsPtr && v.Origin == nil {
			postNames[k] = v
		} else {
			postNames[k] = v
		}
	}
	res := fn.Signature.Results()
	for i := 0; i < res.Len(); i++ {
		out, ok := outs[fmt.Sprintf("GVC-OUT %d", i)]
		if !ok {
			return "result not observed", ""
		}
		if strings.Contains(out, "NaN") {
			return "NaN/Inf in result", ""
		}
		v := Val{T: vc.Define(fmt.Sprintf("out_%d", i), mk(out, vc.SortOf(res.At(i).Type())))}
		postNames[fmt.Sprintf("result%d", i)] = v
		if n := res.At(i).Name(); n != "" && n != "_" {
			postNames[n] = v
		}
		if res.Len() == 1 {
			postNames["result"] = v
		}
	}
	rsc := &Scope{ex: ex, names: postNames, st: post, old: old, bound: map[string]Term{}}
	for _, lt := range fc.PostLets {
		postNames[lt.Name] = Val{T: vc.Define("plet_"+lt.Name, rsc.eval(lt.Expr))}
	}
	for _, w := range fc.Witness {
		// witnesses depend on locals; not available on the real run
		_ = w
	}
	// which ensures clause? name ...post.<i>[@retK]
	idx := -1
	m := regexp.MustCompile(`\.post\.(\d+)`).FindStringSubmatch(o.Name)
	if m != nil {
		fmt.Sscanf(m[1], "%d", &idx)
	}
	if idx < 1 || idx > len(fc.Ensures) {
		return "clause not found", ""
	}
	var goal Term
	var extra []string
	func() {
		defer func() {
			if r := recover(); r != nil {
				goal = Term{}
			}
		}()
		goal, extra = rsc.evalGoal(fc.Ensures[idx-1].Expr)
	}()
	if goal.Sort == nil {
		return "clause mentions proof-only names (witness/ghost); not evaluable on a real run", ""
	}
	// clause false on the real values? (skolemised universals: sat means some instance fails)
	eo := &Obligation{Name: "clause", Hyp: TTrue, Goal: goal, Extra: extra, vc: vc, Prefix: len(vc.items)}
	q := eo.Query(false)
	er := Solve(q, 30, 0, nil)
	switch er.Answer {
	case Sat:
		return "violated", q
	case Unsat:
		return "the clause holds on the real result (the model does not reproduce: abstraction in the translation)", q
	}
	return "clause evaluation undecided", q
}

func runReplay(args []string) int {
	if len(args) < 1 {
		fmt.Fprintln(os.Stderr, "usage: gvc replay <file>")
		return 2
	}
	data, err := os.ReadFile(args[0])
	if err != nil {
		fmt.Fprintln(os.Stderr, err)
		return 2
	}
	var m map[string]any
	if err := json.Unmarshal(data, &m); err != nil {
		fmt.Fprintln(os.Stderr, err)
		return 2
	}
	fmt.Printf("property %v obligation %v (%v)\nclause: %v\nsolver: %v by %v\n", m["property"], m["obligation"], m["kind"], m["clause"], m["answer"], m["backend"])
	rp, _ := m["replay"].(map[string]any)
	if rp == nil {
		fmt.Println("no executable replay recorded:", m["why_no_input"])
		return 1
	}
	src, _ := rp["test_source"].(string)
	if src == "" {
		fmt.Println("no test source recorded:", rp["summary"])
		return 1
	}
	fn, _ := m["function"].(string)
	pkgRel := fn[:strings.Index(fn, ".")]
	if pkgRel == "main" {
		pkgRel = ""
	}
	dir := scratch()
	testFile := filepath.Join(dir, "gvc_replay_test.go")
	os.WriteFile(testFile, []byte(src), 0o644)
	pkgDir := filepath.Join("/repo", pkgRel)
	ovFile := filepath.Join(dir, "overlay.json")
	os.WriteFile(ovFile, mustJSON(map[string]any{"Replace": map[string]string{filepath.Join(pkgDir, "zz_gvc_replay_test.go"): testFile}}), 0o644)
	cmd := exec.Command("go", "test", "-overlay", ovFile, "-vet=off", "-count=1", "-timeout", "60s", "-run", "^TestGvcReplay$", "-v", ".")
	cmd.Dir = pkgDir
	cmd.Env = append(os.Environ(), "GOFLAGS=-mod=mod", "GOPROXY=off", "GOSUMDB=off", "GOTOOLCHAIN=local")
	out, _ := cmd.CombinedOutput()
	fmt.Println(string(out))
	fmt.Println("recorded verdict:", rp["verdict"], "| confirmed:", rp["confirmed"])
	return 0
}
