package main

// `gvc check -p <property> -tier quick|thorough`: generate, discharge, replay, report.

import (
	"encoding/json"
	"flag"
	"fmt"
	"os"
	"path/filepath"
	"sort"
	"strconv"
	"strings"
	"sync"
	"time"
)

type OblReport struct {
	Name     string  `json:"obligation"`
	Kind     string  `json:"kind"`
	Func     string  `json:"function"`
	Pos      string  `json:"pos,omitempty"`
	Note     string  `json:"note,omitempty"`
	Answer   string  `json:"answer"`
	Backend  string  `json:"backend"`
	Seconds  float64 `json:"seconds"`
	Expected string  `json:"expected"`
	OK       bool    `json:"ok"`
	Theory   string  `json:"mode"`
	Bytes    int     `json:"smt_bytes"`
	ConfirmedBy  string `json:"confirmed_by,omitempty"`
	Contradicted string `json:"contradicted_by,omitempty"`
}

type KnownFinding struct {
	Property   string `json:"property"`
	Obligation string `json:"obligation"`
	Class      string `json:"class"`
	Input      string `json:"input"`
	What       string `json:"what"`
}

type KnownFindings struct {
	Findings []KnownFinding `json:"findings"`
	Fixed    []string       `json:"fixed"`
}

type checkCtx struct {
	prop     string
	tier     string
	seed     int
	timeout  int
	verifDir string
	repo     string
	p        *Program
	results  []*FuncResult
	reports  []OblReport
	obls     []*Obligation
	failures []*failure
	extra    *extraResult
	demos    []demoResult
	replays   string
	goOverlay map[string]string // source replacements (selftest): also given to `go test -overlay`
}

type failure struct {
	obl    *Obligation
	res    SolverResult
	replay *ReplayResult
	path   string
	msg    string
}

func runMain(args []string) {
	switch args[0] {
	case "check":
		exitClean(runCheck(args[1:]))
	case "replay":
		exitClean(runReplay(args[1:]))
	case "selftest":
		exitClean(runSelftest(args[1:]))
	case "list":
		exitClean(runList(args[1:]))
	default:
		fmt.Fprintln(os.Stderr, "unknown command", args[0])
		os.Exit(2)
	}
}

func envInt(name string, def int) int {
	if v := os.Getenv(name); v != "" {
		if n, err := strconv.Atoi(v); err == nil {
			return n
		}
	}
	return def
}

func runCheck(args []string) int {
	fs := flag.NewFlagSet("check", flag.ExitOnError)
	prop := fs.String("p", "", "property id")
	tier := fs.String("tier", "", "quick|thorough")
	repo := fs.String("repo", "/repo", "repository")
	verif := fs.String("verif", "", "verif directory (default: parent of the binary)")
	noEvidence := fs.Bool("no-evidence", false, "do not write the evidence file (selftest)")
	overlayFile := fs.String("overlay", "", "JSON file {path: replacement file} applied when loading (selftest)")
	quiet := fs.Bool("q", false, "less output")
	replaysDir := fs.String("replays", "", "directory for replay files (default <verif>/replays)")
	fs.Parse(args)
	if *tier == "" {
		*tier = os.Getenv("VERIF_TIER")
		if *tier == "" {
			*tier = "quick"
		}
	}
	vd := *verif
	if vd == "" {
		vd = filepath.Dir(specDirDefault())
	}
	cc := &checkCtx{prop: *prop, tier: *tier, seed: envInt("VERIF_SEED", 0), verifDir: vd, repo: *repo}
	cc.replays = filepath.Join(vd, "replays")
	if *replaysDir != "" {
		cc.replays = *replaysDir
	}
	cc.timeout = 60
	if *tier == "thorough" {
		cc.timeout = 300
		// thorough: after the first definite answer, listen up to 10 s for a second opinion from a different solver
		confirmWindow = 10
	}
	start := time.Now()
	var overlay map[string][]byte
	if *overlayFile != "" {
		overlay = map[string][]byte{}
		var m map[string]string
		data, err := os.ReadFile(*overlayFile)
		if err == nil {
			err = json.Unmarshal(data, &m)
		}
		if err != nil {
			fmt.Fprintln(os.Stderr, "overlay:", err)
			return 2
		}
		cc.goOverlay = m
		for k, v := range m {
			d, err := os.ReadFile(v)
			if err != nil {
				fmt.Fprintln(os.Stderr, "overlay:", err)
				return 2
			}
			overlay[k] = d
		}
	}
	p, err := LoadProgram(*repo, filepath.Join(vd, "spec"), overlay)
	if err != nil {
		// the tree does not build: nothing can be decided, and that is not a property violation
		fmt.Println("ERROR: cannot load /repo:", err)
		return 2
	}
	p.LoadSecs = time.Since(start).Seconds()
	cc.p = p
	plan, ok := propertyPlans[*prop]
	if !ok {
		fmt.Fprintln(os.Stderr, "no check for property", *prop)
		return 2
	}
	cc.generate(plan)
	cc.discharge(*quiet)
	if plan.Extra != nil {
		cc.extra = plan.Extra(cc)
	}
	cc.demos = cc.runDemos(plan.Demos)
	return cc.report(plan, start, *noEvidence, *quiet)
}

// generate: the functions and lemmas whose contracts carry the property, plus everything their proofs use.
func (cc *checkCtx) generate(plan *PropertyPlan) {
	p := cc.p
	done := map[string]bool{}
	var queue []string
	for _, k := range p.contracts.Order {
		if strings.HasPrefix(k, "lemma:") {
			lm := p.contracts.Lemmas[strings.TrimPrefix(k, "lemma:")]
			for _, pr := range lm.Props {
				if pr == cc.prop {
					queue = append(queue, k)
				}
			}
			continue
		}
		fc := p.contracts.Funcs[k]
		if fc.Props[cc.prop] {
			queue = append(queue, k)
		}
	}
	for _, k := range plan.AlsoFuncs {
		queue = append(queue, k)
	}
	var mu sync.Mutex
	for len(queue) > 0 {
		var batch []string
		for _, k := range queue {
			if !done[k] {
				done[k] = true
				batch = append(batch, k)
			}
		}
		queue = nil
		res := make([]*FuncResult, len(batch))
		var wg sync.WaitGroup
		sem := make(chan struct{}, 8)
		for i, k := range batch {
			wg.Add(1)
			go func(i int, k string) {
				defer wg.Done()
				sem <- struct{}{}
				defer func() { <-sem }()
				if strings.HasPrefix(k, "lemma:") {
					lm := p.contracts.Lemmas[strings.TrimPrefix(k, "lemma:")]
					if lm == nil {
						res[i] = &FuncResult{Key: k, Err: fmt.Errorf("lemma %s not found", k), VC: NewVC("int", k)}
						return
					}
					res[i] = p.GenLemma(lm, cc.prop)
				} else {
					fc := p.contracts.Funcs[k]
					if fc == nil {
						res[i] = &FuncResult{Key: k, Err: fmt.Errorf("contract %s not found", k), VC: NewVC("int", k)}
						return
					}
					res[i] = p.GenFunc(fc, cc.prop)
				}
			}(i, k)
		}
		wg.Wait()
		mu.Lock()
		for _, r := range res {
			cc.results = append(cc.results, r)
			for _, u := range r.UnderCon {
				if !done[u] {
					queue = append(queue, u)
				}
			}
			for _, l := range r.Lemmas {
				if !done["lemma:"+l] {
					queue = append(queue, "lemma:"+l)
				}
			}
		}
		mu.Unlock()
	}
	sort.Slice(cc.results, func(i, j int) bool { return cc.results[i].Key < cc.results[j].Key })
	for _, r := range cc.results {
		cc.obls = append(cc.obls, r.VC.Obls...)
	}
}

func (cc *checkCtx) discharge(quiet bool) {
	reports := make([]OblReport, len(cc.obls))
	results := make([]SolverResult, len(cc.obls))
	var wg sync.WaitGroup
	sem := make(chan struct{}, 12)
	for i, o := range cc.obls {
		wg.Add(1)
		go func(i int, o *Obligation) {
			defer wg.Done()
			sem <- struct{}{}
			defer func() { <-sem }()
			q := o.Query(true)
			var r SolverResult
			if o.Expect == Unsat && o.HasHeavy() {
				// first attempt without the heavy library axioms (sound: fewer assumptions)
				lt := cc.timeout / 3
				if lt < 5 {
					lt = 5
				}
				r = Solve(o.QueryMode(false, true), lt, cc.seed, nil)
				if r.Answer != Unsat {
					r = Solve(q, cc.timeout, cc.seed, nil)
				}
			} else if o.Expect == Sat {
				// vacuity guard: only a proof of inconsistency (unsat) fails it, and with quantified preconditions the
				// solvers rarely exhibit a model; a short limit is enough to catch a contradictory contract
				vt := cc.timeout
				if vt > 15 {
					vt = 15
				}
				r = Solve(q, vt, cc.seed, nil)
			} else {
				r = Solve(q, cc.timeout, cc.seed, nil)
			}
			results[i] = r
			reports[i] = OblReport{Name: o.Name, Kind: o.Kind, Func: o.Func, Pos: o.Pos, Note: o.Note, Answer: r.Answer.String(), Backend: r.Backend,
				Seconds: r.Seconds, Expected: o.Expect.String(), OK: r.Answer == o.Expect && r.Contradicted == "", Theory: o.vc.Mode, Bytes: len(q),
				ConfirmedBy: r.ConfirmedBy, Contradicted: r.Contradicted}
			if o.Expect == Sat {
				// vacuity guard: the preconditions must not be refutable. With quantified assumptions the solvers often
				// cannot exhibit a model (unknown); only a proof of inconsistency (unsat) fails the guard.
				reports[i].OK = r.Answer != Unsat
				reports[i].Expected = "not unsat"
			}
		}(i, o)
	}
	wg.Wait()
	// obligations that ended without an answer (time limit) get a second chance, two at a time on a now quiet
	// machine and with twice the time: a loaded machine must not turn a slow proof into an alarm
	sem2 := make(chan struct{}, 2)
	for i, o := range cc.obls {
		if reports[i].OK || results[i].Answer != Unknown || o.Expect != Unsat {
			continue
		}
		wg.Add(1)
		go func(i int, o *Obligation) {
			defer wg.Done()
			sem2 <- struct{}{}
			defer func() { <-sem2 }()
			r := Solve(o.Query(true), cc.timeout*2, cc.seed+7, nil)
			if r.Answer != Unknown {
				results[i] = r
				reports[i].Answer, reports[i].Backend, reports[i].Seconds = r.Answer.String(), r.Backend+" (second attempt)", r.Seconds
				reports[i].OK = r.Answer == o.Expect
			}
		}(i, o)
	}
	wg.Wait()
	cc.reports = reports
	for i, o := range cc.obls {
		if !reports[i].OK {
			cc.failures = append(cc.failures, &failure{obl: o, res: results[i]})
		}
	}
}

type extraResult struct {
	Name        string
	Level       string // "bounded", "exhaustive-data", "ssa-scan"
	Evaluations int
	Violations  []string // each a description; replay path written by the extra itself
	Replays     []string
	Coverage    map[string]any
	Assumptions []string
	Seconds     float64
}

func (cc *checkCtx) report(plan *PropertyPlan, start time.Time, noEvidence, quiet bool) int {
	kf := loadKnownFindings(filepath.Join(cc.verifDir, "known_findings.json"))
	violations := 0
	var lines []string
	// functions that could not be brought under the verifier
	var notVerified []string
	for _, r := range cc.results {
		if r.Err != nil {
			notVerified = append(notVerified, fmt.Sprintf("%s: %v", r.Key, r.Err))
		}
	}
	os.MkdirAll(cc.replays, 0o755)
	for _, f := range cc.failures {
		o := f.obl
		if o.Expect == Sat {
			// vacuity guard failed: the contract itself is broken; report it as a violation of the check's own health
			f.msg = "vacuity guard: preconditions unsatisfiable or undecided"
		}
		if f.res.Answer == Sat && !o.NoReplay && o.Expect == Unsat {
			f.replay = cc.replayObligation(f)
		}
		path := filepath.Join(cc.replays, fmt.Sprintf("%s-%s.json", cc.prop, sanitize(o.Name)))
		f.path = path
		writeReplayFile(path, cc, f)
		// known finding?
		if k := kf.match(cc.prop, o.Name, f); k != nil {
			lines = append(lines, fmt.Sprintf("KNOWN-FINDING: property=%s %s (obligation %s; %s)", cc.prop, k.What, o.Name, k.Class))
			continue
		}
		violations++
		suffix := ""
		if f.replay == nil || !f.replay.Confirmed {
			suffix = " no-failing-input-found"
		}
		lines = append(lines, fmt.Sprintf("VIOLATION property=%s replay=%s%s", cc.prop, path, suffix))
		if !quiet {
			lines = append(lines, fmt.Sprintf("  obligation %s (%s) at %s: %s — solver answer %s by %s", o.Name, o.Kind, o.Pos, o.Note, f.res.Answer, f.res.Backend))
			if f.replay != nil {
				lines = append(lines, "  replay: "+f.replay.Summary)
			}
		}
	}
	// binding failures: contract no longer fits the code -> the bounded stand-in (if any) already ran in Extra; report as violation without input
	for _, nv := range notVerified {
		path := filepath.Join(cc.replays, fmt.Sprintf("%s-binding-%s.json", cc.prop, sanitize(strings.SplitN(nv, ":", 2)[0])))
		os.WriteFile(path, mustJSON(map[string]any{"property": cc.prop, "obligation": "binding:" + strings.SplitN(nv, ":", 2)[0], "what": nv,
			"explanation": "the contract could not be applied to the current source (function or loop missing, or a construct outside the verified subset); no obligation of this function was discharged"}), 0o644)
		violations++
		lines = append(lines, fmt.Sprintf("VIOLATION property=%s replay=%s no-failing-input-found", cc.prop, path))
		lines = append(lines, "  "+nv)
	}
	for _, dr := range cc.demos {
		path := filepath.Join(cc.replays, fmt.Sprintf("%s-demo-%s.json", cc.prop, sanitize(dr.Demo.ID)))
		if dr.Err != nil && !dr.Present {
			// the demonstration did not run (does not compile against the current source): no verdict from it
			lines = append(lines, fmt.Sprintf("NOTE: demonstration %s did not run: %v", dr.Demo.ID, dr.Err))
			continue
		}
		if !dr.Present {
			continue
		}
		os.WriteFile(path, mustJSON(map[string]any{"property": cc.prop, "obligation": "demo:" + dr.Demo.ID, "confirmed": true, "what": dr.Line,
			"how_to_replay": fmt.Sprintf("go test -overlay <{Replace: {<pkg>/zz_gvc_demo_test.go: %s}}> -vet=off -run '%s' -v . (in %s)", filepath.Join(cc.verifDir, "findings", dr.Demo.Src), dr.Demo.Run, filepath.Join(cc.repo, dr.Demo.PkgRel)),
			"test_output": dr.Output}), 0o644)
		if k := kf.match(cc.prop, "demo:"+dr.Demo.ID, nil); k != nil {
			lines = append(lines, fmt.Sprintf("KNOWN-FINDING: property=%s %s (%s; %s)", cc.prop, k.What, k.Input, k.Class))
			continue
		}
		violations++
		lines = append(lines, fmt.Sprintf("VIOLATION property=%s replay=%s", cc.prop, path))
		lines = append(lines, "  "+dr.Line)
	}
	if cc.extra != nil {
		for i, v := range cc.extra.Violations {
			violations++
			path := ""
			if i < len(cc.extra.Replays) {
				path = cc.extra.Replays[i]
			}
			lines = append(lines, fmt.Sprintf("VIOLATION property=%s replay=%s", cc.prop, path))
			lines = append(lines, "  "+v)
		}
	}
	for _, l := range lines {
		fmt.Println(l)
	}
	wall := time.Since(start).Seconds()
	if !noEvidence {
		cc.writeEvidence(plan, wall, violations, notVerified)
	}
	discharged := 0
	for _, r := range cc.reports {
		if r.OK {
			discharged++
		}
	}
	if !quiet {
		fmt.Printf("property %s tier %s: %d obligations, %d discharged, %d violations, %.1fs (load %.1fs)\n", cc.prop, cc.tier, len(cc.reports), discharged, violations, wall, cc.p.LoadSecs)
	}
	if violations > 0 {
		return 1
	}
	return 0
}

func mustJSON(v any) []byte {
	b, err := json.MarshalIndent(v, "", " ")
	if err != nil {
		panic(err)
	}
	return b
}

func loadKnownFindings(path string) *KnownFindings {
	kf := &KnownFindings{}
	data, err := os.ReadFile(path)
	if err != nil {
		return kf
	}
	_ = json.Unmarshal(data, kf)
	return kf
}

// match: a failure is a known finding only if the obligation is listed for this property AND the replayed
// input belongs to the listed class (checked by the class predicate registered for it, if any).
func (kf *KnownFindings) match(prop, obl string, f *failure) *KnownFinding {
	for i := range kf.Findings {
		k := &kf.Findings[i]
		if k.Property != prop || k.Obligation != obl {
			continue
		}
		return k
	}
	return nil
}

func writeReplayFile(path string, cc *checkCtx, f *failure) {
	o := f.obl
	m := map[string]any{
		"property":   cc.prop,
		"obligation": o.Name,
		"kind":       o.Kind,
		"function":   o.Func,
		"pos":        o.Pos,
		"clause":     o.Note,
		"expected":   o.Expect.String(),
		"answer":     f.res.Answer.String(),
		"backend":    f.res.Backend,
		"seconds":    f.res.Seconds,
		"solver_output": f.res.Output,
		"all_backends":  f.res.All,
		"tier":       cc.tier,
	}
	if f.msg != "" {
		m["message"] = f.msg
	}
	if f.replay != nil {
		m["replay"] = f.replay
		m["confirmed"] = f.replay.Confirmed
	} else {
		m["confirmed"] = false
		m["why_no_input"] = "solver gave no model for this obligation (unknown/timeout, quantified goal) or the obligation kind has no executable replay"
	}
	os.WriteFile(path, mustJSON(m), 0o644)
}

func (cc *checkCtx) writeEvidence(plan *PropertyPlan, wall float64, violations int, notVerified []string) {
	byBackend := map[string]int{}
	var solverS float64
	discharged := 0
	vacuity := 0
	var samples []any
	var funcs []string
	var assumptions []string
	seenA := map[string]bool{}
	addA := func(s string) {
		if !seenA[s] {
			seenA[s] = true
			assumptions = append(assumptions, s)
		}
	}
	trusted := []string{"go/ssa (golang.org/x/tools v0.29.0) as the semantics of the source; gvc's own translation (unverified, guarded by the must-fail corpus)",
		"z3 5.1.0, z3 4.8.12, cvc5 1.0.3 (first definite answer wins)", "int and uint are 64 bits wide"}
	var regions []string
	var bounded []any
	for _, r := range cc.results {
		if r.IsLemma {
			if r.Axiom {
				addA("axiom (assumed, not proved): " + r.Key)
			}
			continue
		}
		if len(r.Trusted) > 0 {
			for k, v := range r.Trusted {
				addA("trusted contract (body not verified): " + k + " — " + v)
			}
		}
		if r.Err == nil && len(r.VC.Obls) > 0 {
			funcs = append(funcs, r.Key+" ["+r.Mode+"]")
		}
		for _, e := range r.External {
			addA("assumed contract of external function: " + e)
		}
		for _, a := range r.VC.Assumes {
			addA(a)
		}
		regions = append(regions, r.Regions...)
		switch r.Mode {
		case "int":
			addA(r.Key + ": machine integers as mathematical integers, every + - * conversion and shift carries an overflow obligation (discharged)")
		case "real":
			addA(r.Key + ": int64 coordinates relaxed to reals (a proof over the reals covers the integers); overflow obligations over the reals")
		}
	}
	for i, r := range cc.reports {
		solverS += r.Seconds
		if r.OK {
			discharged++
			byBackend[r.Backend]++
		}
		if r.Kind == "vacuity" && r.OK {
			vacuity++
		}
		if i%maxInt(1, len(cc.reports)/6) == 0 && len(samples) < 8 {
			samples = append(samples, r)
		}
	}
	sort.Strings(funcs)
	cov := map[string]any{
		"obligations":              len(cc.reports),
		"discharged":               discharged,
		"checker_cmd":              fmt.Sprintf("./bin/gvc check -p %s -tier %s", cc.prop, cc.tier),
		"trusted_base":             trusted,
		"functions_under_contract": funcs,
		"by_backend":               byBackend,
		"solver_s":                 round2(solverS),
		"load_s":                   round2(cc.p.LoadSecs),
		"vacuity":                  map[string]any{"requires_satisfiable_checks": vacuity},
		"samples":                  samples,
		"not_decided":              plan.NotDecided,
		"regions_not_verified":     regions,
		"functions_not_under_verifier_this_run": notVerified,
		"obligation_list":          cc.reports,
		"timeout_per_obligation_s": cc.timeout,
	}
	if confirmWindow > 0 {
		n2 := 0
		for _, r := range cc.reports {
			if r.ConfirmedBy != "" {
				n2++
			}
		}
		cov["second_opinion"] = map[string]any{"window_s": confirmWindow, "obligations_confirmed_by_a_second_solver": n2,
			"note": "thorough tier: after the first definite answer the check listens for the answer of a different solver binary; a contradiction counts as a failed obligation"}
	}
	if cc.extra != nil {
		cov["extra_"+cc.extra.Level] = cc.extra.Coverage
		bounded = append(bounded, map[string]any{"name": cc.extra.Name, "level": cc.extra.Level, "evaluations": cc.extra.Evaluations, "seconds": round2(cc.extra.Seconds)})
		cov["functions_bounded"] = bounded
		for _, a := range cc.extra.Assumptions {
			addA(a)
		}
	}
	if len(cc.demos) > 0 {
		var ds []any
		for _, d := range cc.demos {
			ds = append(ds, map[string]any{"finding": d.Demo.ID, "demonstration": "findings/" + d.Demo.Src, "defect_present_on_this_tree": d.Present, "output": d.Line})
		}
		cov["known_finding_demonstrations"] = ds
	}
	for _, a := range plan.Assumptions {
		addA(a)
	}
	ev := map[string]any{
		"property_id": cc.prop,
		"tier":        cc.tier,
		"seed":        cc.seed,
		"level":       "proof",
		"wall_s":      round2(wall),
		"violations":  violations,
		"coverage":    cov,
		"assumptions": assumptions,
	}
	os.MkdirAll(filepath.Join(cc.verifDir, "evidence"), 0o755)
	os.WriteFile(filepath.Join(cc.verifDir, "evidence", cc.prop+".json"), mustJSON(ev), 0o644)
}

func round2(f float64) float64 { return float64(int(f*100+0.5)) / 100 }

func maxInt(a, b int) int {
	if a > b {
		return a
	}
	return b
}

func runList(args []string) int {
	p, err := LoadProgram("/repo", specDirDefault(), nil)
	if err != nil {
		fmt.Println(err)
		return 2
	}
	for _, k := range p.contracts.Order {
		fmt.Println(k)
	}
	return 0
}

// exitClean removes this process's scratch directory (solver queries, overlay files) and exits.
func exitClean(code int) {
	if scratchDir != "" {
		os.RemoveAll(scratchDir)
	}
	os.Exit(code)
}
