package main

// SMT terms, sorts and the solver portfolio.

import (
	"bytes"
	"context"
	"fmt"
	"math/big"
	"os"
	"os/exec"
	"path/filepath"
	"sort"
	"strings"
	"sync"
	"time"
)

type SortKind int

const (
	KBool SortKind = iota
	KInt
	KReal
	KBV
	KData   // declared datatype (fixed array, struct, slice, map cell, pointer box, iface)
	KArray  // SMT array
	KUnint  // uninterpreted sort
	KString // Go string, uninterpreted
)

type Field struct {
	Name string // accessor name (globally unique)
	Go   string // Go field name ("" for array elements)
	Sort *Sort
}

type Sort struct {
	Name   string
	Kind   SortKind
	Width  int     // KBV
	Signed bool    // for integer sorts derived from Go types only informational
	Fields []Field // KData with a single constructor
	Ctor   string
	Key    *Sort // KArray
	Elem   *Sort // KArray; also element sort of fixed array / slice datatypes
	N      int   // fixed array length
	Role   string
	// Role: "array", "struct", "slice", "map", "ptr", "iface"
	Alt string // second constructor (nil) for ptr/iface
}

func (s *Sort) String() string { return s.Name }

var (
	SBool = &Sort{Name: "Bool", Kind: KBool}
	SInt  = &Sort{Name: "Int", Kind: KInt}
	SReal = &Sort{Name: "Real", Kind: KReal}
	SStr  = &Sort{Name: "String", Kind: KString}
)

var bvSorts = map[int]*Sort{8: mkBV(8), 16: mkBV(16), 32: mkBV(32), 64: mkBV(64)}

func mkBV(w int) *Sort { return &Sort{Name: fmt.Sprintf("(_ BitVec %d)", w), Kind: KBV, Width: w} }

func SBV(w int) *Sort {
	if s, ok := bvSorts[w]; ok {
		return s
	}
	return mkBV(w)
}

// SArray: SMT array sorts are not cached: the element sort of the same name differs between VCs of different
// modes (a struct with int64 fields is over Int in one and over Real in another). Compare sorts with sameSort.
func SArray(k, v *Sort) *Sort {
	return &Sort{Name: fmt.Sprintf("(Array %s %s)", k.Name, v.Name), Kind: KArray, Key: k, Elem: v}
}

func sameSort(a, b *Sort) bool {
	if a == b {
		return true
	}
	if a == nil || b == nil {
		return false
	}
	return a.Name == b.Name
}

// Term is an SMT term as text plus its sort and, when known, its constant value.
type Term struct {
	S    string
	Sort *Sort
	K    *big.Int // constant integer / bit-vector value
	B    *bool    // constant boolean value
	Def  *Term    // for a name introduced by Define: the constructor application it stands for (lets accessors fold)
}

func (t Term) String() string { return t.S }
func (t Term) IsConst() bool  { return t.K != nil || t.B != nil }
func (t Term) Nil() bool      { return t.Sort == nil }

var bTrue, bFalse = true, false
var TTrue = Term{S: "true", Sort: SBool, B: &bTrue}
var TFalse = Term{S: "false", Sort: SBool, B: &bFalse}

func BoolT(b bool) Term {
	if b {
		return TTrue
	}
	return TFalse
}

func Atom(s string, sort *Sort) Term { return Term{S: s, Sort: sort} }

func IntLit(k *big.Int, sort *Sort) Term {
	switch sort.Kind {
	case KInt:
		if k.Sign() < 0 {
			return Term{S: "(- " + new(big.Int).Neg(k).String() + ")", Sort: sort, K: k}
		}
		return Term{S: k.String(), Sort: sort, K: k}
	case KReal:
		if k.Sign() < 0 {
			return Term{S: "(- " + new(big.Int).Neg(k).String() + ".0)", Sort: sort, K: k}
		}
		return Term{S: k.String() + ".0", Sort: sort, K: k}
	case KBV:
		m := new(big.Int).Lsh(big.NewInt(1), uint(sort.Width))
		v := new(big.Int).Mod(k, m)
		return Term{S: fmt.Sprintf("(_ bv%s %d)", v.String(), sort.Width), Sort: sort, K: v}
	}
	panic("IntLit: bad sort " + sort.Name)
}

func IntLit64(k int64, sort *Sort) Term { return IntLit(big.NewInt(k), sort) }

func App(sort *Sort, op string, args ...Term) Term {
	var b strings.Builder
	b.WriteString("(")
	b.WriteString(op)
	for _, a := range args {
		b.WriteString(" ")
		b.WriteString(a.S)
	}
	b.WriteString(")")
	return Term{S: b.String(), Sort: sort}
}

func Not(a Term) Term {
	if a.B != nil {
		return BoolT(!*a.B)
	}
	if strings.HasPrefix(a.S, "(not ") {
		return Term{S: a.S[5 : len(a.S)-1], Sort: SBool}
	}
	return App(SBool, "not", a)
}

func And(as ...Term) Term {
	var keep []Term
	for _, a := range as {
		if a.B != nil {
			if !*a.B {
				return TFalse
			}
			continue
		}
		keep = append(keep, a)
	}
	switch len(keep) {
	case 0:
		return TTrue
	case 1:
		return keep[0]
	}
	return App(SBool, "and", keep...)
}

func Or(as ...Term) Term {
	var keep []Term
	for _, a := range as {
		if a.B != nil {
			if *a.B {
				return TTrue
			}
			continue
		}
		keep = append(keep, a)
	}
	switch len(keep) {
	case 0:
		return TFalse
	case 1:
		return keep[0]
	}
	return App(SBool, "or", keep...)
}

func Implies(a, b Term) Term {
	if a.B != nil {
		if *a.B {
			return b
		}
		return TTrue
	}
	if b.B != nil && *b.B {
		return TTrue
	}
	return App(SBool, "=>", a, b)
}

func Ite(c, a, b Term) Term {
	if c.B != nil {
		if *c.B {
			return a
		}
		return b
	}
	if a.S == b.S {
		return a
	}
	if a.Sort.Kind == KBool && a.B != nil && b.B != nil {
		if *a.B && !*b.B {
			return c
		}
		if !*a.B && *b.B {
			return Not(c)
		}
	}
	return App(a.Sort, "ite", c, a, b)
}

func Eq(a, b Term) Term {
	if a.S == b.S {
		return TTrue
	}
	if a.K != nil && b.K != nil {
		return BoolT(a.K.Cmp(b.K) == 0)
	}
	if a.B != nil && b.B != nil {
		return BoolT(*a.B == *b.B)
	}
	if a.B != nil {
		if *a.B {
			return b
		}
		return Not(b)
	}
	if b.B != nil {
		if *b.B {
			return a
		}
		return Not(a)
	}
	return App(SBool, "=", a, b)
}

// ---- queries ----

type Answer int

const (
	Unsat Answer = iota
	Sat
	Unknown
)

func (a Answer) String() string { return [...]string{"unsat", "sat", "unknown"}[a] }

type SolverResult struct {
	Answer  Answer
	Backend string
	Seconds float64
	Output  string // raw output of the winning (or last) solver
	Model   string // text after the first line when sat
	All     map[string]string
	// thorough tier: a second, different solver binary that gave the same / the opposite definite answer within the
	// confirmation window after the first one
	ConfirmedBy  string
	Contradicted string
}

// confirmWindow: how long (seconds) Solve keeps listening for a second opinion after the first definite answer; 0 = off.
var confirmWindow = 0

func solverFamily(name string) string {
	if i := strings.Index(name, "/"); i >= 0 {
		name = name[:i]
	}
	return name
}

type backend struct {
	name string
	argv func(file string, timeoutS int, seed int) []string
}

var backends = []backend{
	{"z3-5.1.0", func(f string, t, seed int) []string {
		return []string{"z3-new", fmt.Sprintf("-T:%d", t), fmt.Sprintf("smt.random_seed=%d", seed), fmt.Sprintf("sat.random_seed=%d", seed), f}
	}},
	{"z3-4.8.12", func(f string, t, seed int) []string {
		return []string{"/usr/bin/z3", fmt.Sprintf("-T:%d", t), fmt.Sprintf("smt.random_seed=%d", seed), fmt.Sprintf("sat.random_seed=%d", seed), f}
	}},
	{"cvc5-1.0.3", func(f string, t, seed int) []string {
		return []string{"cvc5", fmt.Sprintf("--tlimit=%d", t*1000), fmt.Sprintf("--seed=%d", seed), "--produce-models", f}
	}},
}

var scratchDir string
var scratchOnce sync.Once
var queryCounter int
var queryMu sync.Mutex

func scratch() string {
	scratchOnce.Do(func() {
		d, err := os.MkdirTemp("", "gvc-")
		if err != nil {
			panic(err)
		}
		scratchDir = d
	})
	return scratchDir
}

func cleanupScratch() {
	if scratchDir != "" {
		os.RemoveAll(scratchDir)
	}
}

// Solve races the back ends on one query. skip lists back ends that cannot parse the query.
func Solve(query string, timeoutS int, seed int, only []string) SolverResult {
	queryMu.Lock()
	queryCounter++
	n := queryCounter
	queryMu.Unlock()
	file := filepath.Join(scratch(), fmt.Sprintf("q%d.smt2", n))
	if err := os.WriteFile(file, []byte(query), 0o644); err != nil {
		panic(err)
	}
	defer os.Remove(file)
	ctx, cancel := context.WithCancel(context.Background())
	defer cancel()
	type res struct {
		name string
		out  string
		secs float64
	}
	var use []backend
	for _, b := range backends {
		if len(only) > 0 {
			ok := false
			for _, o := range only {
				if strings.HasPrefix(b.name, o) {
					ok = true
				}
			}
			if !ok {
				continue
			}
		}
		use = append(use, b)
	}
	// secondary variants (other seeds, a pre-simplifying tactic) are started if the primary set has not answered
	// within two seconds: nonlinear obligations are very sensitive to the seed, a small portfolio makes them stable
	type variant struct {
		name string
		argv []string
	}
	var primary, secondary []variant
	for _, b := range use {
		primary = append(primary, variant{b.name, b.argv(file, timeoutS, seed)})
	}
	if len(only) == 0 {
		for k := 1; k <= 3; k++ {
			secondary = append(secondary, variant{fmt.Sprintf("z3-5.1.0/seed+%d", k), backends[0].argv(file, timeoutS, seed+k)})
		}
		// plain E-matching (no strategy selection, no model-based instantiation): decides trigger-driven goals at once
		// that the default strategy of z3 gets lost in when reals or nonlinear terms occur anywhere in the query
		em := func(name, bin string) variant {
			return variant{name, []string{bin, fmt.Sprintf("-T:%d", timeoutS), "smt.auto_config=false", "smt.mbqi=false",
				fmt.Sprintf("smt.random_seed=%d", seed), file}}
		}
		primary = append(primary, em("z3-4.8.12/ematch", "/usr/bin/z3"))
		secondary = append(secondary, em("z3-5.1.0/ematch", "z3-new"))
		tfile := file + ".tactic.smt2"
		tq := strings.Replace(query, "(check-sat)", "(check-sat-using (then simplify propagate-values solve-eqs smt))", 1)
		if tq != query && !strings.Contains(query, "(get-value") {
			if os.WriteFile(tfile, []byte(tq), 0o644) == nil {
				defer os.Remove(tfile)
				secondary = append(secondary, variant{"z3-5.1.0/tactic", backends[0].argv(tfile, timeoutS, seed)})
			}
		} else if tq != query {
			// with get-value the tactic form still answers check-sat; models are only read from a "sat" of any variant
			if os.WriteFile(tfile, []byte(tq), 0o644) == nil {
				defer os.Remove(tfile)
				secondary = append(secondary, variant{"z3-5.1.0/tactic", backends[0].argv(tfile, timeoutS, seed)})
			}
		}
	}
	ch := make(chan res, len(primary)+len(secondary))
	launch := func(v variant) {
		go func() {
			start := time.Now()
			c := exec.CommandContext(ctx, v.argv[0], v.argv[1:]...)
			var out bytes.Buffer
			c.Stdout = &out
			c.Stderr = &out
			_ = c.Run()
			ch <- res{v.name, out.String(), time.Since(start).Seconds()}
		}()
	}
	for _, v := range primary {
		launch(v)
	}
	all := map[string]string{}
	final := SolverResult{Answer: Unknown, All: all}
	pending := len(primary)
	timer := time.NewTimer(2 * time.Second)
	defer timer.Stop()
	started := false
	t0 := time.Now()
	for pending > 0 {
		var r res
		select {
		case r = <-ch:
			pending--
		case <-timer.C:
			if !started {
				started = true
				for _, v := range secondary {
					launch(v)
					pending++
				}
			}
			continue
		}
		first := firstLine(r.out)
		all[r.name] = truncate(r.out, 400)
		total := time.Since(t0).Seconds()
		switch first {
		case "unsat", "sat":
			var sr SolverResult
			if first == "unsat" {
				sr = SolverResult{Answer: Unsat, Backend: r.name, Seconds: total, Output: truncate(r.out, 2000), All: all}
			} else {
				rest := ""
				if i := strings.Index(r.out, "\n"); i >= 0 {
					rest = r.out[i+1:]
				}
				sr = SolverResult{Answer: Sat, Backend: r.name, Seconds: total, Output: truncate(r.out, 20000), Model: rest, All: all}
			}
			if confirmWindow > 0 && pending > 0 {
				// second opinion from a different solver binary (thorough tier)
				deadline := time.After(time.Duration(confirmWindow) * time.Second)
				for pending > 0 && sr.ConfirmedBy == "" && sr.Contradicted == "" {
					select {
					case r2 := <-ch:
						pending--
						f2 := firstLine(r2.out)
						all[r2.name] = truncate(r2.out, 400)
						if solverFamily(r2.name) == solverFamily(r.name) || (f2 != "sat" && f2 != "unsat") {
							continue
						}
						if f2 == first {
							sr.ConfirmedBy = r2.name
						} else {
							sr.Contradicted = r2.name + " answered " + f2
						}
					case <-deadline:
						pending = 0
					}
				}
			}
			return sr
		default:
			final.Backend = r.name
			final.Seconds = total
			final.Output = truncate(r.out, 2000)
		}
		if pending == 0 && !started && len(secondary) > 0 {
			// everything answered "unknown" quickly: still give the secondary variants a chance
			started = true
			for _, v := range secondary {
				launch(v)
				pending++
			}
		}
	}
	return final
}

func firstLine(s string) string {
	for _, l := range strings.Split(s, "\n") {
		l = strings.TrimSpace(l)
		if l == "" || strings.Contains(l, "WARNING") {
			continue
		}
		return l
	}
	return ""
}

func truncate(s string, n int) string {
	if len(s) > n {
		return s[:n] + "…"
	}
	return s
}

// tokens of an SMT text that look like symbols; used for slicing queries
func smtSymbols(s string, into map[string]bool) {
	i := 0
	for i < len(s) {
		c := s[i]
		if c == '|' {
			j := strings.IndexByte(s[i+1:], '|')
			if j < 0 {
				return
			}
			into[s[i:i+j+2]] = true
			i += j + 2
			continue
		}
		if isSymChar(c) {
			j := i
			for j < len(s) && isSymChar(s[j]) {
				j++
			}
			into[s[i:j]] = true
			i = j
			continue
		}
		i++
	}
}

func isSymChar(c byte) bool {
	return c >= 'a' && c <= 'z' || c >= 'A' && c <= 'Z' || c >= '0' && c <= '9' || strings.IndexByte("_.$!@~&^<>=+-*/%?#", c) >= 0
}

func sortedKeys[V any](m map[string]V) []string {
	ks := make([]string, 0, len(m))
	for k := range m {
		ks = append(ks, k)
	}
	sort.Strings(ks)
	return ks
}
