package main

// VC: one verification context = sorts, declarations, facts and obligations generated for
// one function (or one lemma) in one mode.

import (
	"fmt"
	"go/types"
	"math/big"
	"sort"
	"strings"
)

type itemKind int

const (
	itDecl   itemKind = iota // declare-const / declare-fun
	itDef                    // define-fun name () sort term
	itAssume                 // assert
	itRaw                    // prelude text (always included)
)

type item struct {
	kind itemKind
	name string
	text string
	syms map[string]bool
	note string
	heavy bool // quantified library axiom prone to matching loops: left out of the first (light) attempt
}

type Obligation struct {
	Name     string
	Kind     string // post, pre, inv-init, inv-step, safety, unwind, lemma, vacuity, panics, decreases
	Props    []string
	Func     string
	Prefix   int  // number of items visible
	Hyp      Term // reach condition
	Goal     Term
	Extra    []string // extra assertions (e.g. skolem declarations) appended before the goal
	Note     string
	Inputs   []ModelVar // symbols whose model values define a replayable input
	Expect   Answer     // Unsat normally; Sat for canaries / vacuity checks
	vc       *VC
	Pos      string
	Theory   string
	NoReplay bool
	MinItem  int // assumptions made before this item index are not given to the solver (sound: fewer assumptions), type ranges excepted
}

type ModelVar struct {
	Name string // Go-level name (parameter path)
	Term Term
	Type types.Type
}

type VC struct {
	Mode      string // "bv", "int", "real"
	OpaqueMul bool   // see FuncContract.OpaqueMul
	OpaqueDiv bool   // see FuncContract.OpaqueDiv
	FuncName  string
	sorts     map[string]*Sort
	sortDecls []string
	items     []item
	declared  map[string]bool
	fresh     map[string]int
	Obls      []*Obligation
	prelude   map[string]bool
	specSigs  map[string]*SpecSig
	Assumes   []string // unchecked assumptions collected while generating (for the evidence)
	strConsts map[string]string
	typeIDs   map[string]int
	lookupStruct func(string) types.Type
	rawPrelude   []string
}

func NewVC(mode, fn string) *VC {
	return &VC{Mode: mode, FuncName: fn, sorts: map[string]*Sort{}, declared: map[string]bool{}, fresh: map[string]int{},
		prelude: map[string]bool{}, specSigs: map[string]*SpecSig{}, strConsts: map[string]string{}, typeIDs: map[string]int{}}
}

func (vc *VC) assumeNote(s string) {
	for _, a := range vc.Assumes {
		if a == s {
			return
		}
	}
	vc.Assumes = append(vc.Assumes, s)
}

func sanitize(s string) string {
	var b strings.Builder
	for _, c := range s {
		switch {
		case c >= 'a' && c <= 'z', c >= 'A' && c <= 'Z', c >= '0' && c <= '9', c == '_':
			b.WriteRune(c)
		default:
			b.WriteRune('_')
		}
	}
	return b.String()
}

func (vc *VC) Fresh(base string) string {
	base = sanitize(base)
	n := vc.fresh[base]
	vc.fresh[base] = n + 1
	name := base
	if n > 0 {
		name = fmt.Sprintf("%s!%d", base, n)
	}
	if vc.declared[name] {
		return vc.Fresh(base)
	}
	return name
}

func symsOf(s string) map[string]bool {
	m := map[string]bool{}
	smtSymbols(s, m)
	return m
}

// Declare introduces an unconstrained constant.
func (vc *VC) Declare(base string, sort *Sort) Term {
	name := vc.Fresh(base)
	vc.declared[name] = true
	vc.items = append(vc.items, item{kind: itDecl, name: name, text: fmt.Sprintf("(declare-const %s %s)", name, sort.Name), syms: map[string]bool{}})
	return Atom(name, sort)
}

func (vc *VC) DeclareFun(name string, args []*Sort, res *Sort) {
	if vc.declared[name] {
		return
	}
	vc.declared[name] = true
	var as []string
	for _, a := range args {
		as = append(as, a.Name)
	}
	vc.items = append(vc.items, item{kind: itDecl, name: name, text: fmt.Sprintf("(declare-fun %s (%s) %s)", name, strings.Join(as, " "), res.Name), syms: map[string]bool{}})
}

// Define names a term. Constants and atoms are returned unchanged.
func (vc *VC) Define(base string, t Term) Term {
	if t.IsConst() || (!strings.HasPrefix(t.S, "(")) {
		return t
	}
	name := vc.Fresh(base)
	vc.declared[name] = true
	vc.items = append(vc.items, item{kind: itDef, name: name, text: fmt.Sprintf("(define-fun %s () %s %s)", name, t.Sort.Name, t.S), syms: symsOf(t.S)})
	r := Term{S: name, Sort: t.Sort}
	if t.Sort.Kind == KData && strings.HasPrefix(t.S, "("+t.Sort.Ctor+" ") {
		orig := t
		r.Def = &orig
	} else if t.Def != nil {
		r.Def = t.Def
	}
	return r
}

func (vc *VC) Assume(t Term, note string) {
	if t.B != nil && *t.B {
		return
	}
	vc.items = append(vc.items, item{kind: itAssume, text: fmt.Sprintf("(assert %s)", t.S), syms: symsOf(t.S), note: note})
}

// AssumeHeavy: as Assume, but the fact is only given to the solver in the second attempt at an obligation
// (omitting an assumption is always sound for a proof; it keeps permutation-style axioms out of queries
// that do not need them).
func (vc *VC) AssumeHeavy(t Term, note string) {
	vc.items = append(vc.items, item{kind: itAssume, text: fmt.Sprintf("(assert %s)", t.S), syms: symsOf(t.S), note: note, heavy: true})
}

func (vc *VC) Raw(text string) {
	vc.rawPrelude = append(vc.rawPrelude, text)
	// names defined by raw text
	for _, l := range strings.Split(text, "\n") {
		l = strings.TrimSpace(l)
		for _, kw := range []string{"(define-fun ", "(declare-fun ", "(declare-const ", "(define-fun-rec "} {
			if strings.HasPrefix(l, kw) {
				rest := l[len(kw):]
				if i := strings.IndexAny(rest, " ("); i > 0 {
					vc.declared[rest[:i]] = true
				}
			}
		}
	}
}

func (vc *VC) AddObl(o *Obligation) *Obligation {
	o.vc = vc
	o.Prefix = len(vc.items)
	if o.Func == "" {
		o.Func = vc.FuncName
	}
	// unique name
	base := o.Name
	n := 1
	for {
		dup := false
		for _, p := range vc.Obls {
			if p.Name == o.Name {
				dup = true
				break
			}
		}
		if !dup {
			break
		}
		n++
		o.Name = fmt.Sprintf("%s#%d", base, n)
	}
	vc.Obls = append(vc.Obls, o)
	return o
}

// Query builds the SMT-LIB text for an obligation, with cone-of-influence slicing of the prefix.
func (o *Obligation) Query(withModel bool) string { return o.QueryMode(withModel, false) }

// HasHeavy reports whether heavy axioms are in scope of the obligation.
func (o *Obligation) HasHeavy() bool {
	for _, it := range o.vc.items[:o.Prefix] {
		if it.heavy {
			return true
		}
	}
	return false
}

func (o *Obligation) QueryMode(withModel bool, light bool) string {
	vc := o.vc
	needed := map[string]bool{}
	smtSymbols(o.Hyp.S, needed)
	smtSymbols(o.Goal.S, needed)
	for _, e := range o.Extra {
		smtSymbols(e, needed)
	}
	for _, iv := range o.Inputs {
		smtSymbols(iv.Term.S, needed)
	}
	items := vc.items[:o.Prefix]
	include := make([]bool, len(items))
	// raw prelude always included, and its symbols needed
	for i, it := range items {
		if it.kind == itRaw {
			include[i] = true
		}
	}
	defIdx := map[string]int{}
	for i, it := range items {
		if it.kind == itDef {
			defIdx[it.name] = i
		}
	}
	// derivable: a defined name all of whose ingredients are (derivable from) needed symbols
	var derivable func(s string, depth int) bool
	derivable = func(s string, depth int) bool {
		if needed[s] || !vc.declared[s] {
			return true
		}
		i, isDef := defIdx[s]
		if !isDef || depth > 6 {
			return false
		}
		for d := range items[i].syms {
			if !derivable(d, depth+1) {
				return false
			}
		}
		return true
	}
	changed := true
	for changed {
		changed = false
		for i := len(items) - 1; i >= 0; i-- {
			if include[i] {
				continue
			}
			it := items[i]
			take := false
			switch it.kind {
			case itDecl, itDef:
				take = needed[it.name]
			case itAssume:
				if light && it.heavy {
					continue
				}
				if i < o.MinItem && it.note != "type range" && it.note != "merged container value" {
					continue
				}
				any := false
				all := true
				for s := range it.syms {
					if vc.declared[s] {
						any = true
						if needed[s] {
							take = true
							break
						}
						if !derivable(s, 0) {
							all = false
						}
					}
				}
				if !any || all {
					take = true
				}
			}
			if take {
				include[i] = true
				changed = true
				for s := range it.syms {
					if !needed[s] {
						needed[s] = true
					}
				}
			}
		}
	}
	var b strings.Builder
	if withModel {
		b.WriteString("(set-option :produce-models true)\n")
	}
	b.WriteString("(set-logic ALL)\n")
	for _, d := range vc.sortDecls {
		b.WriteString(d)
		b.WriteString("\n")
	}
	for _, r := range vc.rawPrelude {
		b.WriteString(r)
		b.WriteString("\n")
	}
	for i, it := range items {
		if include[i] {
			b.WriteString(it.text)
			b.WriteString("\n")
		}
	}
	for _, e := range o.Extra {
		b.WriteString(e)
		b.WriteString("\n")
	}
	if o.Hyp.B == nil || !*o.Hyp.B {
		fmt.Fprintf(&b, "(assert %s)\n", o.Hyp.S)
	}
	if o.Expect == Sat {
		// satisfiability check of the hypothesis together with the goal
		fmt.Fprintf(&b, "(assert %s)\n", o.Goal.S)
	} else {
		fmt.Fprintf(&b, "(assert (not %s))\n", o.Goal.S)
	}
	b.WriteString("(check-sat)\n")
	if withModel && len(o.Inputs) > 0 {
		b.WriteString("(get-value (")
		for _, iv := range o.Inputs {
			b.WriteString(iv.Term.S)
			b.WriteString(" ")
		}
		b.WriteString("))\n")
	}
	return b.String()
}

// ---------------- Go types -> sorts ----------------

func (vc *VC) intSort(b *types.Basic) *Sort {
	switch vc.Mode {
	case "bv":
		return SBV(intWidth(b))
	case "real":
		if b.Kind() == types.Int64 {
			return SReal
		}
		return SInt
	default:
		return SInt
	}
}

func intWidth(b *types.Basic) int {
	switch b.Kind() {
	case types.Int8, types.Uint8:
		return 8
	case types.Int16, types.Uint16:
		return 16
	case types.Int32, types.Uint32:
		return 32
	}
	return 64
}

func isUnsigned(b *types.Basic) bool { return b.Info()&types.IsUnsigned != 0 }

func intRange(b *types.Basic) (lo, hi *big.Int) {
	w := uint(intWidth(b))
	if isUnsigned(b) {
		return big.NewInt(0), new(big.Int).Sub(new(big.Int).Lsh(big.NewInt(1), w), big.NewInt(1))
	}
	hi = new(big.Int).Sub(new(big.Int).Lsh(big.NewInt(1), w-1), big.NewInt(1))
	lo = new(big.Int).Neg(new(big.Int).Lsh(big.NewInt(1), w-1))
	return
}

func sortTag(s *Sort) string {
	switch s.Kind {
	case KBV:
		return fmt.Sprintf("BV%d", s.Width)
	case KArray:
		return "Ar_" + sortTag(s.Key) + "_" + sortTag(s.Elem)
	}
	return s.Name
}

func (vc *VC) declareData(s *Sort) {
	if _, ok := vc.sorts[s.Name]; ok {
		return
	}
	vc.sorts[s.Name] = s
	var fs []string
	for _, f := range s.Fields {
		fs = append(fs, fmt.Sprintf("(%s %s)", f.Name, f.Sort.Name))
	}
	ctors := fmt.Sprintf("(%s %s)", s.Ctor, strings.Join(fs, " "))
	if len(fs) == 0 {
		ctors = "(" + s.Ctor + ")"
	}
	if s.Alt != "" {
		ctors = "(" + s.Alt + ") " + ctors
	}
	vc.sortDecls = append(vc.sortDecls, fmt.Sprintf("(declare-datatypes ((%s 0)) ((%s)))", s.Name, ctors))
}

func (vc *VC) ArraySortOf(n int, elem *Sort) *Sort {
	name := fmt.Sprintf("A%d_%s", n, sortTag(elem))
	if s, ok := vc.sorts[name]; ok {
		return s
	}
	s := &Sort{Name: name, Kind: KData, Role: "array", N: n, Elem: elem, Ctor: "mk_" + name}
	for i := 0; i < n; i++ {
		s.Fields = append(s.Fields, Field{Name: fmt.Sprintf("%s_e%d", name, i), Sort: elem})
	}
	vc.declareData(s)
	return s
}

func (vc *VC) SliceSortOf(elem *Sort) *Sort {
	name := "Sl_" + sortTag(elem)
	if s, ok := vc.sorts[name]; ok {
		return s
	}
	s := &Sort{Name: name, Kind: KData, Role: "slice", Elem: elem, Ctor: "mk_" + name}
	s.Fields = []Field{{Name: name + "_arr", Sort: SArray(SInt, elem)}, {Name: name + "_len", Sort: SInt}, {Name: name + "_nil", Sort: SBool}}
	vc.declareData(s)
	return s
}

// MapSortOf: a map value is the pair (domain, values). Go's reference semantics for maps is
// handled by the executor (maps held in cells / tracked by static identity), see exec.go.
func (vc *VC) MapSortOf(k, v *Sort) *Sort {
	name := "Mp_" + sortTag(k) + "_" + sortTag(v)
	if s, ok := vc.sorts[name]; ok {
		return s
	}
	s := &Sort{Name: name, Kind: KData, Role: "map", Key: k, Elem: v, Ctor: "mk_" + name}
	s.Fields = []Field{{Name: name + "_dom", Sort: SArray(k, SBool)}, {Name: name + "_val", Sort: SArray(k, v)}, {Name: name + "_card", Sort: SInt}, {Name: name + "_nil", Sort: SBool}}
	vc.declareData(s)
	return s
}

func (vc *VC) PtrSortOf(elem *Sort) *Sort {
	name := "Pt_" + sortTag(elem)
	if s, ok := vc.sorts[name]; ok {
		return s
	}
	s := &Sort{Name: name, Kind: KData, Role: "ptr", Elem: elem, Ctor: "box_" + name, Alt: "nil_" + name}
	s.Fields = []Field{{Name: name + "_deref", Sort: elem}}
	vc.declareData(s)
	return s
}

func (vc *VC) IfaceSort() *Sort {
	name := "Iface"
	if s, ok := vc.sorts[name]; ok {
		return s
	}
	s := &Sort{Name: name, Kind: KData, Role: "iface", Ctor: "mk_Iface", Alt: "nil_Iface"}
	s.Fields = []Field{{Name: "Iface_tag", Sort: SInt}, {Name: "Iface_val", Sort: SInt}}
	vc.declareData(s)
	return s
}

func (vc *VC) StrSort() *Sort { return SStr }

func (vc *VC) UnintSort(name string) *Sort {
	if s, ok := vc.sorts[name]; ok {
		return s
	}
	s := &Sort{Name: name, Kind: KUnint}
	vc.sorts[name] = s
	vc.sortDecls = append(vc.sortDecls, fmt.Sprintf("(declare-sort %s 0)", name))
	return s
}

func typeKeyName(t types.Type) string {
	s := types.TypeString(t, func(p *types.Package) string { return p.Name() })
	return sanitize(s)
}

func (vc *VC) TypeID(t types.Type) int {
	k := types.TypeString(t, nil)
	if id, ok := vc.typeIDs[k]; ok {
		return id
	}
	id := len(vc.typeIDs) + 1
	vc.typeIDs[k] = id
	return id
}

// SortOf maps a Go type to its sort in this VC's mode.
func (vc *VC) SortOf(t types.Type) *Sort {
	switch u := t.Underlying().(type) {
	case *types.Basic:
		switch {
		case u.Info()&types.IsBoolean != 0:
			return SBool
		case u.Info()&types.IsInteger != 0:
			return vc.intSort(u)
		case u.Info()&types.IsFloat != 0:
			if vc.Mode == "bv" {
				panic(unsupported("float in bv mode"))
			}
			return SReal
		case u.Info()&types.IsString != 0:
			return vc.StrSort()
		case u.Kind() == types.UntypedNil:
			return vc.IfaceSort()
		}
	case *types.Array:
		return vc.ArraySortOf(int(u.Len()), vc.SortOf(u.Elem()))
	case *types.Struct:
		if nt, isNamed := t.(*types.Named); isNamed && nt.Obj() != nil && nt.Obj().Pkg() != nil {
			if pp := nt.Obj().Pkg().Path(); pp != modulePath && !strings.HasPrefix(pp, modulePath+"/") && !transparentExternal[pp] {
				// a struct type of a library (database handles, mutexes, ...): opaque, its fields are never modelled
				return vc.UnintSort("X_" + typeKeyName(t))
			}
		}
		name := "S_" + typeKeyName(t)
		if _, isNamed := t.(*types.Named); !isNamed {
			if _, isAlias := t.(*types.Alias); !isAlias {
				name = "S_anon_" + typeKeyName(t)
			}
		}
		if len(name) > 60 {
			name = fmt.Sprintf("%s_%d", name[:50], vc.TypeID(t))
		}
		if s, ok := vc.sorts[name]; ok {
			return s
		}
		s := &Sort{Name: name, Kind: KData, Role: "struct", Ctor: "mk_" + name}
		// reserve the name to cut recursion through pointers (which we do not follow: pointers to the same struct are rejected)
		for i := 0; i < u.NumFields(); i++ {
			f := u.Field(i)
			s.Fields = append(s.Fields, Field{Name: fmt.Sprintf("%s_%s", name, sanitize(f.Name())), Go: f.Name(), Sort: vc.SortOf(f.Type())})
		}
		vc.declareData(s)
		return s
	case *types.Slice:
		return vc.SliceSortOf(vc.SortOf(u.Elem()))
	case *types.Map:
		return vc.MapSortOf(vc.SortOf(u.Key()), vc.SortOf(u.Elem()))
	case *types.Pointer:
		return vc.PtrSortOf(vc.SortOf(u.Elem()))
	case *types.Interface:
		return vc.IfaceSort()
	case *types.Signature:
		return vc.UnintSort("GoFunc")
	case *types.Chan:
		return vc.UnintSort("GoChan")
	case *types.Tuple:
		panic(unsupported("tuple sort"))
	}
	panic(unsupported("type " + t.String()))
}

type unsupportedErr struct{ what string }

func (u unsupportedErr) Error() string { return "unsupported: " + u.what }
func unsupported(s string) error      { return unsupportedErr{s} }

// ---- helpers over data sorts ----

func FieldOf(t Term, i int) Term {
	if t.Def != nil {
		// fold through the definition only when that keeps the term small (otherwise every use would copy a
		// large sub-term; the accessor applied to the name says the same)
		if r := FieldOf(*t.Def, i); len(r.S) <= 160 || r.IsConst() {
			return r
		}
		return App(t.Sort.Fields[i].Sort, t.Sort.Fields[i].Name, Term{S: t.S, Sort: t.Sort})
	}
	f := t.Sort.Fields[i]
	// fold (acc (mk ...)) when the term is syntactically a constructor application
	if strings.HasPrefix(t.S, "("+t.Sort.Ctor+" ") {
		args := splitTop(t.S[len(t.Sort.Ctor)+2 : len(t.S)-1])
		if len(args) == len(t.Sort.Fields) {
			r := Term{S: args[i], Sort: f.Sort}
			return reconst(r)
		}
	}
	return App(f.Sort, f.Name, t)
}

// reconst recovers constant annotations from literal text
func reconst(t Term) Term {
	switch t.Sort.Kind {
	case KBool:
		if t.S == "true" {
			return TTrue
		}
		if t.S == "false" {
			return TFalse
		}
	case KInt:
		if k, ok := new(big.Int).SetString(t.S, 10); ok {
			t.K = k
		} else if strings.HasPrefix(t.S, "(- ") {
			if k, ok := new(big.Int).SetString(t.S[3:len(t.S)-1], 10); ok {
				t.K = k.Neg(k)
			}
		}
	case KBV:
		if strings.HasPrefix(t.S, "(_ bv") {
			parts := strings.Fields(t.S[5 : len(t.S)-1])
			if k, ok := new(big.Int).SetString(parts[0], 10); ok {
				t.K = k
			}
		}
	}
	return t
}

func splitTop(s string) []string {
	var out []string
	depth := 0
	start := -1
	inBar := false
	for i := 0; i < len(s); i++ {
		c := s[i]
		if inBar {
			if c == '|' {
				inBar = false
			}
			continue
		}
		switch c {
		case '|':
			inBar = true
			if start < 0 {
				start = i
			}
		case '(':
			if depth == 0 && start < 0 {
				start = i
			}
			depth++
		case ')':
			depth--
			if depth == 0 && start >= 0 && s[start] == '(' {
				out = append(out, s[start:i+1])
				start = -1
			}
		case ' ', '\n', '\t':
			if depth == 0 && start >= 0 {
				out = append(out, s[start:i])
				start = -1
			}
		default:
			if start < 0 {
				start = i
			}
		}
	}
	if start >= 0 {
		out = append(out, s[start:])
	}
	return out
}

func FieldByGoName(t Term, name string) (Term, bool) {
	for i, f := range t.Sort.Fields {
		if f.Go == name {
			return FieldOf(t, i), true
		}
	}
	return Term{}, false
}

func MkData(s *Sort, fields ...Term) Term {
	if len(fields) != len(s.Fields) {
		panic(fmt.Sprintf("MkData %s: %d fields, want %d", s.Name, len(fields), len(s.Fields)))
	}
	if len(fields) == 0 {
		return Atom(s.Ctor, s)
	}
	return App(s, s.Ctor, fields...)
}

func WithField(t Term, i int, v Term) Term {
	fs := make([]Term, len(t.Sort.Fields))
	for j := range fs {
		if j == i {
			fs[j] = v
		} else {
			fs[j] = FieldOf(t, j)
		}
	}
	return MkData(t.Sort, fs...)
}

// ArrayGet selects element idx of a fixed array datatype value.
func ArrayGet(a Term, idx Term) Term {
	if idx.K != nil {
		i := int(idx.K.Int64())
		if i >= 0 && i < a.Sort.N {
			return FieldOf(a, i)
		}
	}
	r := FieldOf(a, a.Sort.N-1)
	for i := a.Sort.N - 2; i >= 0; i-- {
		r = Ite(Eq(idx, IntLit64(int64(i), idx.Sort)), FieldOf(a, i), r)
	}
	return r
}

func ArraySet(a Term, idx Term, v Term) Term {
	if idx.K != nil {
		i := int(idx.K.Int64())
		if i >= 0 && i < a.Sort.N {
			return WithField(a, i, v)
		}
	}
	fs := make([]Term, a.Sort.N)
	for i := range fs {
		fs[i] = Ite(Eq(idx, IntLit64(int64(i), idx.Sort)), v, FieldOf(a, i))
	}
	return MkData(a.Sort, fs...)
}

// slices are (contents indexed from 0, length, nil flag): element i of s is (select (arr s) i); there is no
// offset, so that quantified facts about elements have arithmetic-free patterns. Re-slicing from a non-zero
// low bound introduces a fresh contents array with a shift axiom.
func slArr(s Term) Term { return FieldOf(s, 0) }
func slLen(s Term) Term { return FieldOf(s, 1) }
func slNil(s Term) Term { return FieldOf(s, 2) }
func mpDom(m Term) Term { return FieldOf(m, 0) }
func mpVal(m Term) Term { return FieldOf(m, 1) }
func mpCard(m Term) Term { return FieldOf(m, 2) }
func mpNil(m Term) Term { return FieldOf(m, 3) }
func lenOf(t Term) Term {
	if t.Sort.Role == "slice" {
		return slLen(t)
	}
	return mpCard(t)
}
func nilOf(t Term) Term {
	if t.Sort.Role == "slice" {
		return slNil(t)
	}
	return mpNil(t)
}

func Select(arr, k Term) Term { return App(arr.Sort.Elem, "select", arr, k) }
func Store(arr, k, v Term) Term {
	return App(arr.Sort, "store", arr, k, v)
}

func sortNamesSorted(m map[string]*Sort) []string {
	ks := make([]string, 0, len(m))
	for k := range m {
		ks = append(ks, k)
	}
	sort.Strings(ks)
	return ks
}

// mulT: product of two terms; in opaque mode a product of two non-constant integers is the uninterpreted tm(a, b).
func (vc *VC) mulT(a, b Term) Term {
	if a.K != nil && b.K != nil {
		return IntLit(new(big.Int).Mul(a.K, b.K), a.Sort)
	}
	if vc.OpaqueMul && a.Sort.Kind == KInt && b.Sort.Kind == KInt && a.K == nil && b.K == nil {
		return App(SInt, "tm", a, b)
	}
	return App(a.Sort, "*", a, b)
}

// transparentExternal: library packages whose struct types are modelled field by field (the code under
// verification reads and writes their fields, or small functions of theirs are executed from source)
var transparentExternal = map[string]bool{
	"github.com/go-spatial/geom":         true,
	"github.com/go-spatial/geom/slippy":  true,
	"github.com/tobshub/go-sortedmap":    true,
	"github.com/wk8/go-ordered-map/v2":   true,
}
