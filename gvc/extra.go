package main

// Extras: checks that are not proofs and are labelled as such in the evidence: bounded stand-ins (the real function
// run over an exhaustive small domain) and complete enumerations of finite data. They run the real code through
// `go test -overlay`, with the test source kept in /verif/bounded.

import (
	"encoding/json"
	"fmt"
	"os"
	"os/exec"
	"path/filepath"
	"strings"
	"time"
)

type overlayTest struct {
	Name   string // label
	Level  string // "bounded" | "exhaustive-data"
	Src    string // file under /verif/bounded
	PkgRel string // package directory relative to the repo ("" = root)
	Run    string // -run regexp
	Bound  string // stated bound / domain
	Env    []string
}

func (cc *checkCtx) runOverlayTests(tests []overlayTest) *extraResult {
	res := &extraResult{Coverage: map[string]any{}}
	start := time.Now()
	var names, levels []string
	var list []any
	for _, ot := range tests {
		names = append(names, ot.Name)
		levels = append(levels, ot.Level)
		src := filepath.Join(cc.verifDir, "bounded", ot.Src)
		pkgDir := filepath.Join(cc.repo, ot.PkgRel)
		dir := scratch()
		ovFile := filepath.Join(dir, "ov_"+sanitize(ot.Name)+".json")
		repl := map[string]string{filepath.Join(pkgDir, "zz_gvc_extra_test.go"): src}
		for k, v := range cc.goOverlay {
			repl[k] = v
		}
		os.WriteFile(ovFile, mustJSON(map[string]any{"Replace": repl}), 0o644)
		cmd := exec.Command("go", "test", "-overlay", ovFile, "-vet=off", "-count=1", "-timeout", "3600s", "-run", ot.Run, "-v", ".")
		cmd.Dir = pkgDir
		cmd.Env = append(append(os.Environ(), "GOFLAGS=-mod=mod", "GOPROXY=off", "GOSUMDB=off", "GOTOOLCHAIN=local",
			fmt.Sprintf("VERIF_SEED=%d", cc.seed), "VERIF_TIER="+cc.tier), ot.Env...)
		t0 := time.Now()
		out, err := cmd.CombinedOutput()
		secs := time.Since(t0).Seconds()
		var data []any
		evals := 0
		for _, l := range strings.Split(string(out), "\n") {
			l = strings.TrimSpace(l)
			if strings.HasPrefix(l, "GVC-DATA ") {
				var v any
				if json.Unmarshal([]byte(l[len("GVC-DATA "):]), &v) == nil {
					data = append(data, v)
					evals++
					if m, ok := v.(map[string]any); ok {
						if n, ok := m["evaluations"].(float64); ok {
							evals += int(n) - 1
						}
					}
				}
			}
		}
		res.Evaluations += evals
		entry := map[string]any{"name": ot.Name, "level": ot.Level, "bound": ot.Bound, "evaluations": evals, "seconds": round2(secs), "passed": err == nil}
		if len(data) > 6 {
			entry["samples"] = data[:6]
		} else {
			entry["samples"] = data
		}
		list = append(list, entry)
		if err != nil {
			path := filepath.Join(cc.replays, fmt.Sprintf("%s-extra-%s.json", cc.prop, sanitize(ot.Name)))
			os.MkdirAll(filepath.Dir(path), 0o755)
			os.WriteFile(path, mustJSON(map[string]any{"property": cc.prop, "obligation": "extra:" + ot.Name, "level": ot.Level, "bound": ot.Bound,
				"how_to_replay": fmt.Sprintf("go test -overlay <{Replace: {%s/zz_gvc_extra_test.go: %s}}> -vet=off -run '%s' -v . (in %s)", pkgDir, src, ot.Run, pkgDir),
				"test_output": truncate(string(out), 8000), "data": data, "confirmed": true}), 0o644)
			// first failing line as description
			desc := ot.Name + " failed"
			for _, l := range strings.Split(string(out), "\n") {
				if strings.Contains(l, "_test.go:") && !strings.Contains(l, "GVC-") {
					desc = ot.Name + ": " + strings.TrimSpace(l)
					break
				}
			}
			if strings.Contains(string(out), "[build failed]") || strings.Contains(string(out), "[setup failed]") {
				desc = ot.Name + ": the stand-in no longer compiles against the current source (no verdict from it)"
			}
			res.Violations = append(res.Violations, truncate(desc, 400))
			res.Replays = append(res.Replays, path)
		}
	}
	res.Name = strings.Join(names, ", ")
	res.Level = strings.Join(uniq(levels), "+")
	res.Coverage["runs"] = list
	res.Seconds = time.Since(start).Seconds()
	return res
}

func uniq(ss []string) []string {
	seen := map[string]bool{}
	var out []string
	for _, s := range ss {
		if !seen[s] {
			seen[s] = true
			out = append(out, s)
		}
	}
	return out
}

// findingDemo: a demonstration of a recorded defect on the real code (source under /verif/findings). The test itself
// always passes and prints GVC-FINDING-PRESENT <id> ... while the defect shows.
type findingDemo struct {
	ID     string // e.g. "F6": listed in known_findings.json as obligation "demo:F6"
	Src    string
	PkgRel string
	Run    string
}

type demoResult struct {
	Demo    findingDemo
	Present bool
	Line    string
	Output  string
	Err     error
}

func (cc *checkCtx) runDemos(demos []findingDemo) []demoResult {
	var out []demoResult
	for _, d := range demos {
		src := filepath.Join(cc.verifDir, "findings", d.Src)
		pkgDir := filepath.Join(cc.repo, d.PkgRel)
		dir := scratch()
		ovFile := filepath.Join(dir, "ov_demo_"+sanitize(d.ID)+".json")
		repl := map[string]string{filepath.Join(pkgDir, "zz_gvc_demo_test.go"): src}
		for k, v := range cc.goOverlay {
			repl[k] = v
		}
		os.WriteFile(ovFile, mustJSON(map[string]any{"Replace": repl}), 0o644)
		cmd := exec.Command("go", "test", "-overlay", ovFile, "-vet=off", "-count=1", "-timeout", "120s", "-run", d.Run, "-v", ".")
		cmd.Dir = pkgDir
		cmd.Env = append(os.Environ(), "GOFLAGS=-mod=mod", "GOPROXY=off", "GOSUMDB=off", "GOTOOLCHAIN=local")
		b, err := cmd.CombinedOutput()
		r := demoResult{Demo: d, Output: truncate(string(b), 4000), Err: err}
		for _, l := range strings.Split(string(b), "\n") {
			l = strings.TrimSpace(l)
			if strings.HasPrefix(l, "GVC-FINDING-PRESENT "+d.ID) {
				r.Present = true
				r.Line = l
			}
		}
		out = append(out, r)
	}
	return out
}
