package main

// Calls: by contract, by inlining, builtins and assumed contracts of external functions.

import (
	"fmt"
	"go/types"
	"strings"

	"golang.org/x/tools/go/ssa"
)

const maxInlineDepth = 6

func (f *Frame) call(ns *nodeState, x *ssa.Call) {
	ex := f.ex
	common := x.Common()
	var args []Val
	for _, a := range common.Args {
		args = append(args, f.operand(ns.env, a))
	}
	if common.IsInvoke() {
		recv := f.operand(ns.env, common.Value)
		f.setResult(ns, x, f.invoke(ns, x, recv, common.Method, args))
		return
	}
	callee := f.operand(ns.env, common.Value)
	switch {
	case callee.Builtin != "":
		f.setResult(ns, x, f.builtin(ns, x, callee.Builtin, args))
	case callee.Fn != nil:
		fn := callee.Fn
		if len(callee.Free) > 0 {
			f.setResult(ns, x, f.inlineCall(ns, x, fn, args, callee.Free))
			return
		}
		f.setResult(ns, x, f.staticCall(ns, x, fn, args))
	default:
		ex.fail("dynamic call %s", x)
	}
}

func (f *Frame) setResult(ns *nodeState, x *ssa.Call, rs []Val) {
	switch len(rs) {
	case 0:
		ns.env[x] = Val{}
	case 1:
		if sig := x.Common().Signature(); sig != nil && sig.Results().Len() == 1 {
			ns.env[x] = rs[0]
			return
		}
		ns.env[x] = Val{Tup: rs}
	default:
		ns.env[x] = Val{Tup: rs}
	}
}

func inModule(fn *ssa.Function) bool {
	var path string
	if fn.Pkg != nil {
		path = fn.Pkg.Pkg.Path()
	} else if o := fn.Origin(); o != nil && o.Pkg != nil {
		path = o.Pkg.Pkg.Path()
	} else if fn.Object() != nil && fn.Object().Pkg() != nil {
		path = fn.Object().Pkg().Path()
	}
	return path == modulePath || strings.HasPrefix(path, modulePath+"/")
}

func originOf(fn *ssa.Function) *ssa.Function {
	if o := fn.Origin(); o != nil {
		return o
	}
	return fn
}

func (f *Frame) staticCall(ns *nodeState, x *ssa.Call, fn *ssa.Function, args []Val) []Val {
	ex := f.ex
	if inModule(fn) {
		key := funcKey(originOf(fn))
		if fc := ex.P.contracts.Funcs[key]; fc != nil && !fc.Inline && !(f.depth == 0 && false) {
			return f.callByContract(ns, x, fc, fn, args)
		}
		if fn.Blocks == nil {
			ex.fail("no body for %s", fn)
		}
		if f.depth >= maxInlineDepth {
			ex.fail("inlining depth exceeded at %s", fn)
		}
		return f.inlineCall(ns, x, fn, args, nil)
	}
	return f.externalCall(ns, x, fn, args)
}

// inlineCall executes the callee's body in place.
func (f *Frame) inlineCall(ns *nodeState, x ssa.Instruction, fn *ssa.Function, args []Val, free []Val) []Val {
	ex := f.ex
	ex.inlined[funcKey(originOf(fn))] = true
	ex.inlineSeq++
	sub := &Frame{ex: ex, fn: fn, depth: f.depth + 1, prefix: fmt.Sprintf("%s%s%d_", f.prefix, sanitize(fn.Name()), ex.inlineSeq), oldScope: f.oldScope}
	if fc := ex.P.contracts.Funcs[funcKey(originOf(fn))]; fc != nil {
		sub.fc = fc // loop annotations of an inlined function still apply
	}
	sub.analyse()
	env := map[ssa.Value]Val{}
	names := map[string]Val{}
	for i, p := range fn.Params {
		env[p] = args[i]
		names[p.Name()] = args[i]
	}
	for i, fv := range fn.FreeVars {
		env[fv] = free[i]
	}
	start := nodeState{reach: ns.reach, env: env, names: names, st: ns.st}
	sub.run(fn.Blocks[0], start)
	if len(sub.rets) == 0 {
		// never returns (always panics)
		ns.reach = TFalse
		return make([]Val, fn.Signature.Results().Len())
	}
	// merge returns
	conds := make([]Term, len(sub.rets))
	sts := make([]State, len(sub.rets))
	for i, r := range sub.rets {
		conds[i] = r.reach
		sts[i] = r.st
	}
	nres := fn.Signature.Results().Len()
	out := make([]Val, nres)
	for k := 0; k < nres; k++ {
		vals := make([]Val, len(sub.rets))
		for i, r := range sub.rets {
			vals[i] = r.results[k]
		}
		out[k] = ex.mergeVals(conds, vals, sub.prefix+fmt.Sprintf("ret%d", k))
	}
	if len(sub.rets) == 1 {
		ns.st = sub.rets[0].st
		ns.reach = sub.rets[0].reach
	} else {
		merged := ex.mergeStates(conds, sts)
		for c := range ns.st {
			delete(ns.st, c)
		}
		for c, t := range merged {
			ns.st[c] = t
		}
		ns.reach = ex.vc.Define(sub.prefix+"Rret", Or(conds...))
	}
	return out
}

// callByContract: assert requires, havoc the frame, assume ensures.
func (f *Frame) callByContract(ns *nodeState, x *ssa.Call, fc *FuncContract, fn *ssa.Function, args []Val) []Val {
	ex := f.ex
	vc := ex.vc
	key := fc.Key()
	ex.underCon[key] = true
	if fc.Trusted != "" {
		ex.trusted[key] = fc.Trusted
	}
	for _, p := range fc.Preludes {
		ex.needPrelude(p)
	}
	if fc.Mode == "bv" && vc.Mode != "bv" {
		vc.assumeNote("contract of " + key + " is proved over bit-vectors and used here over mathematical integers (arguments and results within the machine range; bit-vector/integer transfer)")
	}
	ex.callSeq[key]++
	ord := ex.callSeq[key]
	base := fmt.Sprintf("%s.call.%s@%d", f.oblBase(), key, ord)
	names := map[string]Val{}
	for i, p := range fn.Params {
		names[p.Name()] = args[i]
	}
	pre := &Scope{ex: ex, names: names, st: ns.st.clone(), bound: map[string]Term{}}
	pre.old = pre
	for _, lt := range fc.Lets {
		names[lt.Name] = Val{T: vc.Define(f.prefix+"let_"+lt.Name, pre.eval(lt.Expr))}
	}
	for i, r := range fc.Requires {
		t := pre.evalBool(r.Expr)
		ex.obl(&Obligation{Name: fmt.Sprintf("%s.pre.%d", base, i+1), Kind: "pre", Props: r.Props, Hyp: ns.reach, Goal: t,
			Note: "precondition of " + key + ": " + r.Text, Pos: f.pos(x.Pos())})
	}
	// panics
	if len(fc.Panics) > 0 {
		var ps []Term
		for _, p := range fc.Panics {
			ps = append(ps, pre.evalBool(p.Expr))
		}
		pc := Or(ps...)
		ex.panics = append(ex.panics, panicExit{reach: And(ns.reach, pc), what: "callee " + key + " panics (" + f.pos(x.Pos()) + ")"})
		ns.reach = vc.Define(f.prefix+"Rnp", And(ns.reach, Not(pc)))
	}
	if fc.MayPanic {
		nd := vc.Declare(f.prefix+"maypanic", SBool)
		ex.panics = append(ex.panics, panicExit{reach: And(ns.reach, nd), what: "callee " + key + " may panic (" + f.pos(x.Pos()) + ")"})
		ns.reach = vc.Define(f.prefix+"Rnp", And(ns.reach, Not(nd)))
	}
	// frame
	for _, m := range fc.Modifies {
		lv := pre.lvalue(m.Expr)
		cur := ex.loadLV(ns.st, lv)
		fresh := vc.Declare(f.prefix+"mod_"+sanitize(m.Text), cur.Sort)
		if cur.Sort.Kind == KData && cur.Sort.Role == "slice" {
			// a callee can write the elements of a slice it is given, not the caller's slice header
			vc.Assume(And(Eq(slLen(fresh), slLen(cur)), Eq(slNil(fresh), slNil(cur))), "a modified slice keeps its length")
		}
		ex.storeLV(ns.st, lv, fresh)
	}
	// ghost effect: the callee logs one of its (slice) arguments to a ghost list of the function under verification
	for _, lg := range fc.Logs {
		gc, ok := ex.ghostLists[lg[1]]
		if !ok {
			ex.fail("callee %s logs to ghost list %s, which the function under verification does not declare (ghostlist)", key, lg[1])
		}
		av, ok := names[lg[0]]
		if !ok {
			ex.fail("logs %s: no such parameter of %s", lg[0], key)
		}
		a := ex.viewOf(ns.st, av)
		w := ns.st[gc]
		w2 := vc.Declare(f.prefix+"log_"+lg[1], w.Sort)
		i := Atom("q_li", SInt)
		sel := Select(slArr(w2), i)
		vc.Assume(Implies(ns.reach, And(Eq(slLen(w2), addT(slLen(w), slLen(a))), Not(slNil(w2)))), "ghost log: length of the concatenation")
		vc.Assume(Implies(ns.reach, Term{S: fmt.Sprintf("(forall ((q_li Int)) (! (and (=> (and (<= 0 q_li) (< q_li %s)) (= %s %s)) (=> (and (<= %s q_li) (< q_li %s)) (= %s %s))) :pattern (%s)))",
			slLen(w).S, sel.S, Select(slArr(w), i).S, slLen(w).S, slLen(w2).S, sel.S, Select(slArr(a), subT(i, slLen(w))).S, sel.S), Sort: SBool}), "ghost log: elements of the concatenation")
		ns.st[gc] = w2
		ex.markWritten(gc, -1)
	}
	// results
	res := fn.Signature.Results()
	out := make([]Val, res.Len())
	post := &Scope{ex: ex, names: copyNames(names), st: ns.st, old: pre, bound: map[string]Term{}}
	for i := 0; i < res.Len(); i++ {
		if pt, isPtr := res.At(i).Type().Underlying().(*types.Pointer); isPtr {
			if _, isStruct := pt.Elem().Underlying().(*types.Struct); isStruct {
				// a pointer result is a fresh object owned by the caller, possibly nil
				es := vc.SortOf(pt.Elem())
				c := ex.newCell(fmt.Sprintf("%sres_%s_%d", f.prefix, sanitize(fn.Name()), i), es, pt.Elem())
				init := vc.Declare(fmt.Sprintf("%sres_%s_%d", f.prefix, sanitize(fn.Name()), i), es)
				ex.assumeRange(init, pt.Elem(), ns.reach)
				ns.st[c] = init
				out[i] = Val{IsPtr: true, P: &LV{Cell: c}, NilIf: vc.Declare(fmt.Sprintf("%sres_%s_%d_nil", f.prefix, sanitize(fn.Name()), i), SBool)}
				post.names[fmt.Sprintf("result%d", i)] = out[i]
				if n := res.At(i).Name(); n != "" && n != "_" {
					post.names[n] = out[i]
				}
				continue
			}
		}
		out[i] = f.havocVal(res.At(i).Type(), fmt.Sprintf("%sres_%s_%d", f.prefix, sanitize(fn.Name()), i), ns.reach)
		if isRefType(res.At(i).Type()) {
			// a map / slice result is an object the caller may go on to modify: keep it in a location of its own
			rt := res.At(i).Type()
			c := ex.newCell(fmt.Sprintf("%sres_%s_%d", f.prefix, sanitize(fn.Name()), i), out[i].T.Sort, rt)
			ns.st[c] = out[i].T
			out[i] = Val{T: out[i].T, Origin: &LV{Cell: c, Epoch: ex.seq}}
		}
		post.names[fmt.Sprintf("result%d", i)] = out[i]
		if n := res.At(i).Name(); n != "" && n != "_" {
			post.names[n] = out[i]
		}
	}
	if res.Len() == 1 {
		post.names["result"] = out[0]
	}
	var internal []*Clause // names that only exist inside the callee (witnesses, postlets over its locals)
	internal = append(internal, fc.Witness...)
	for _, lt := range fc.PostLets {
		func() {
			defer func() {
				if r := recover(); r != nil {
					if _, isSpec := r.(specError); !isSpec {
						panic(r)
					}
					internal = append(internal, lt)
				}
			}()
			post.names[lt.Name] = Val{T: vc.Define(f.prefix+"plet_"+lt.Name, post.eval(lt.Expr))}
		}()
	}
	for _, e := range fc.AssumedEnsures {
		vc.Assume(Implies(ns.reach, post.evalBool(e.Expr)), "ASSUMED postcondition of "+key)
		vc.assumeNote("assumed, not proved: postcondition of " + key + ": " + e.Text)
	}
	for _, e := range fc.Ensures {
		if e.Kind == "proves" {
			continue
		}
		if mentionsAny(e.Expr, internal) {
			continue // stated in terms of a proof witness / callee local: callers use the other forms
		}
		vc.Assume(Implies(ns.reach, post.evalBool(e.Expr)), "postcondition of "+key)
	}
	return out
}

func mentionsAny(e *SExpr, ws []*Clause) bool {
	if e == nil {
		return false
	}
	if e.Op == "id" {
		for _, w := range ws {
			if w.Name == e.Name {
				return true
			}
		}
	}
	for _, a := range e.Args {
		if mentionsAny(a, ws) {
			return true
		}
	}
	return false
}

// lvalue resolves a contract expression to a location (for modifies clauses).
func (sc *Scope) lvalue(e *SExpr) *LV {
	v := sc.evalVal(e)
	if v.IsPtr && v.P != nil {
		return v.P
	}
	if v.Origin != nil {
		return v.Origin
	}
	sc.errorf(e, "not a location that the caller can see being modified")
	return nil
}

func (f *Frame) builtin(ns *nodeState, x *ssa.Call, name string, args []Val) []Val {
	ex := f.ex
	vc := ex.vc
	switch name {
	case "len", "cap":
		t := ex.viewOf(ns.st, args[0])
		switch t.Sort.Role {
		case "slice", "map":
			return []Val{{T: lenOf(t)}}
		}
		if t.Sort.Kind == KString {
			vc.assumeNote("len(string) is the number of characters of the modelled string (byte length not distinguished)")
			return []Val{{T: App(SInt, "str.len", t)}}
		}
		ex.fail("len of %s", t.Sort)
	case "append":
		if args[0].Shared {
			ex.fail("alias discipline: append to a slice that was obtained by re-slicing another slice (its backing array may still be visible through other slices, e.g. a recycled buffer)")
		}
		s := ex.viewOf(ns.st, args[0])
		if len(args) == 1 {
			return []Val{{T: s}}
		}
		t := ex.viewOf(ns.st, args[1])
		if t.Sort.Kind == KString {
			ex.fail("append of string")
		}
		arr, ln := slArr(s), slLen(s)
		tl := slLen(t)
		if tl.K != nil && tl.K.Int64() <= 8 {
			n := int(tl.K.Int64())
			for i := 0; i < n; i++ {
				el := Select(slArr(t), IntLit64(int64(i), SInt))
				arr = Store(arr, addT(ln, IntLit64(int64(i), SInt)), el)
			}
			return []Val{{T: vc.Define(f.prefix+x.Name(), MkData(s.Sort, arr, addT(ln, tl), TFalse))}}
		}
		// general case: fresh array with target-index axioms
		na := vc.Declare(f.prefix+x.Name()+"_arr", arr.Sort)
		j := Atom("q_j", SInt)
		end := ln
		ax1 := Implies(And(leT(IntLit64(0, SInt), j), ltT(j, end)), Eq(Select(na, j), Select(arr, j)))
		ax2 := Implies(And(leT(end, j), ltT(j, addT(end, tl))), Eq(Select(na, j), Select(slArr(t), subT(j, end))))
		vc.Assume(Term{S: fmt.Sprintf("(forall ((q_j Int)) (and %s %s))", ax1.S, ax2.S), Sort: SBool}, "append: contents of the result")
		isNil := And(slNil(s), Eq(tl, IntLit64(0, SInt)))
		return []Val{{T: vc.Define(f.prefix+x.Name(), MkData(s.Sort, na, addT(ln, tl), isNil))}}
	case "delete":
		mv := args[0]
		if mv.Origin == nil {
			ex.fail("delete from a map that is not held in a tracked location")
		}
		m := ex.viewOf(ns.st, mv)
		mt := x.Common().Args[0].Type().Underlying().(*types.Map)
		k := ex.toData(ns.st, args[1], mt.Key())
		dom := FieldOf(m, 0)
		nm := MkData(m.Sort, Store(dom, k, TFalse), FieldOf(m, 1), Ite(Select(dom, k), subT(FieldOf(m, 2), IntLit64(1, SInt)), FieldOf(m, 2)), FieldOf(m, 3))
		ex.storeLV(ns.st, mv.Origin, nm)
		return nil
	case "min", "max":
		r := ex.viewOf(ns.st, args[0])
		for _, a := range args[1:] {
			t := ex.viewOf(ns.st, a)
			var c Term
			if r.Sort.Kind == KBV {
				ex.fail("min/max in bv mode")
			}
			if name == "min" {
				c = leT(r, t)
			} else {
				c = leT(t, r)
			}
			r = Ite(c, r, t)
		}
		return []Val{{T: vc.Define(f.prefix+x.Name(), r)}}
	case "copy":
		dst, src := args[0], args[1]
		if dst.Origin == nil {
			ex.fail("copy into a slice that is not held in a tracked location")
		}
		d := ex.viewOf(ns.st, dst)
		s := ex.viewOf(ns.st, src)
		n := Ite(leT(slLen(d), slLen(s)), slLen(d), slLen(s))
		n = vc.Define(f.prefix+x.Name()+"_n", n)
		na := vc.Declare(f.prefix+x.Name()+"_arr", FieldOf(d, 0).Sort)
		j := Atom("q_j", SInt)
		in := And(leT(IntLit64(0, SInt), j), ltT(j, n))
		ax := Ite(in, Eq(Select(na, j), Select(slArr(s), j)), Eq(Select(na, j), Select(slArr(d), j)))
		vc.Assume(Term{S: fmt.Sprintf("(forall ((q_j Int)) %s)", ax.S), Sort: SBool}, "copy: contents of the destination")
		ex.storeLV(ns.st, dst.Origin, WithField(d, 0, na))
		return []Val{{T: n}}
	case "print", "println":
		return nil
	}
	ex.fail("builtin %s", name)
	return nil
}

func (f *Frame) invoke(ns *nodeState, x *ssa.Call, recv Val, m *types.Func, args []Val) []Val {
	ex := f.ex
	switch m.Name() {
	case "Error", "String":
		ex.vc.assumeNote("interface method " + m.Name() + "(): arbitrary string, no effect on modelled state")
		return []Val{f.havocVal(types.Typ[types.String], f.prefix+"errstr", ns.reach)}
	}
	if sig, ok := m.Type().(*types.Signature); ok && sig.Params().Len() == 0 && sig.Results().Len() == 1 && inModule(f.fn) {
		if b, isBasic := sig.Results().At(0).Type().Underlying().(*types.Basic); isBasic && b.Info()&types.IsString != 0 {
			ex.vc.assumeNote("interface getter " + m.Name() + "(): a pure function of the receiver (no effect, same result for the same value)")
			return []Val{{T: ifaceGetter(ex.vc, m.Name(), recv.T, SStr)}}
		}
	}
	if h := invokeHandlers[m.FullName()]; h != nil {
		return h(f, ns, x, recv, args)
	}
	ex.fail("interface method call %s", m.FullName())
	return nil
}

var invokeHandlers = map[string]func(f *Frame, ns *nodeState, x *ssa.Call, recv Val, args []Val) []Val{}

// externalCall: assumed contracts of functions outside the module.
func (f *Frame) externalCall(ns *nodeState, x *ssa.Call, fn *ssa.Function, args []Val) []Val {
	ex := f.ex
	name := originOf(fn).String()
	if inlineExternals[name] && fn.Blocks != nil {
		// tiny library functions whose source is part of the build are executed like module code
		ex.external[name+" (library source inlined)"] = true
		return f.inlineCall(ns, x, fn, args, nil)
	}
	if h, ok := externals[name]; ok {
		ex.external[name] = true
		return h(f, ns, x, fn, args)
	}
	// effect-free library calls whose result is irrelevant or arbitrary
	for _, p := range pureExternalPrefixes {
		if strings.HasPrefix(name, p) {
			ex.external[name+" (arbitrary result, no effect)"] = true
			res := fn.Signature.Results()
			out := make([]Val, res.Len())
			for i := 0; i < res.Len(); i++ {
				out[i] = f.havocVal(res.At(i).Type(), f.prefix+"ext_"+sanitize(fn.Name()), ns.reach)
			}
			return out
		}
	}
	ex.fail("call of external function %s without an assumed contract", name)
	return nil
}

var inlineExternals = map[string]bool{
	"github.com/go-spatial/geom/slippy.NewTile": true,
}

var pureExternalPrefixes = []string{"fmt.Sprintf", "fmt.Sprint", "fmt.Errorf", "fmt.Fprintf", "fmt.Printf", "fmt.Println", "log.Printf", "log.Println", "log.Print",
	"(*log.Logger).", "strconv.Itoa", "strings.Repeat",
	// the sorted map of go-sortedmap is an opaque library object: its observers return arbitrary values
	"(*github.com/tobshub/go-sortedmap.SortedMap[K, V]).Map", "(*github.com/tobshub/go-sortedmap.SortedMap[K, V]).Keys",
	// the ordered map of wk8/go-ordered-map is an opaque library object as well: constructors, observers and mutators
	// return arbitrary values and have no effect on anything the program can see except through the object itself
	"github.com/wk8/go-ordered-map/v2.", "(*github.com/wk8/go-ordered-map/v2."}

type extHandler func(f *Frame, ns *nodeState, x *ssa.Call, fn *ssa.Function, args []Val) []Val

var externals = map[string]extHandler{}

func init() {
	externals["errors.New"] = func(f *Frame, ns *nodeState, x *ssa.Call, fn *ssa.Function, args []Val) []Val {
		v := f.havocVal(fn.Signature.Results().At(0).Type(), f.prefix+"err", ns.reach)
		f.ex.vc.Assume(Not(Eq(v.T, Atom("nil_Iface", v.T.Sort))), "errors.New returns a non-nil error")
		return []Val{v}
	}
	externals["fmt.Errorf"] = externals["errors.New"]
	externals["math.Pow"] = func(f *Frame, ns *nodeState, x *ssa.Call, fn *ssa.Function, args []Val) []Val {
		a, b := args[0].T, args[1].T
		if a.K != nil && b.K != nil && b.K.IsInt64() && b.K.Int64() >= 0 && b.K.Int64() < 64 {
			r := new(bigInt).Exp(a.K, b.K, nil)
			f.ex.vc.assumeNote("math.Pow on constant integer arguments treated as exact")
			return []Val{{T: IntLit(r, SReal)}}
		}
		f.ex.fail("math.Pow with non-constant arguments")
		return nil
	}
	externals["math.Log2"] = func(f *Frame, ns *nodeState, x *ssa.Call, fn *ssa.Function, args []Val) []Val {
		// exact on powers of two; otherwise only monotone bounds are assumed
		ex := f.ex
		ex.needPrelude("arith")
		a := args[0].T
		r := App(SReal, "log2r", a)
		r = ex.vc.Define(f.prefix+"log2", r)
		// instance axioms for k = 0..40: a == 2^k => r == k ; 2^k <= a < 2^(k+1) => k <= r < k+1
		for k := 0; k <= 40; k++ {
			p := IntLit(new(bigInt).Lsh(bigOne, uint(k)), SReal)
			p1 := IntLit(new(bigInt).Lsh(bigOne, uint(k+1)), SReal)
			kk := IntLit64(int64(k), SReal)
			ex.vc.Assume(Implies(Eq(a, p), Eq(r, kk)), "math.Log2 exact on powers of two")
			ex.vc.Assume(Implies(And(leT(p, a), ltT(a, p1)), And(leT(kk, r), ltT(r, IntLit64(int64(k+1), SReal)))), "math.Log2 monotone")
		}
		ex.vc.assumeNote("math.Log2: exact on 2^k (k<=40), floor(log2) bracketed otherwise (float rounding not modelled)")
		return []Val{{T: r}}
	}
	identity := func(f *Frame, ns *nodeState, x *ssa.Call, fn *ssa.Function, args []Val) []Val { return []Val{args[0]} }
	externals["(github.com/go-spatial/geom.Polygon).LinearRings"] = identity
	externals["math/bits.Mul64"] = func(f *Frame, ns *nodeState, x *ssa.Call, fn *ssa.Function, args []Val) []Val {
		ex := f.ex
		a, b := args[0].T, args[1].T
		if a.Sort.Kind != KInt {
			ex.fail("bits.Mul64 outside integer mode")
		}
		hi := ex.vc.Declare(f.prefix+"mulhi", SInt)
		lo := ex.vc.Declare(f.prefix+"mullo", SInt)
		two64 := IntLit(new(bigInt).Lsh(bigOne, 64), SInt)
		zero := IntLit64(0, SInt)
		ex.vc.Assume(And(leT(zero, hi), ltT(hi, two64), leT(zero, lo), ltT(lo, two64),
			Eq(App(SInt, "+", App(SInt, "*", hi, two64), lo), App(SInt, "*", a, b))), "bits.Mul64: hi*2^64 + lo == x*y")
		return []Val{{T: hi}, {T: lo}}
	}
	externals["math.Round"] = func(f *Frame, ns *nodeState, x *ssa.Call, fn *ssa.Function, args []Val) []Val {
		f.ex.needPrelude("arith")
		return []Val{{T: App(SReal, "roundHalfAway", args[0].T)}}
	}
	externals["(github.com/go-spatial/geom.Point).X"] = func(f *Frame, ns *nodeState, x *ssa.Call, fn *ssa.Function, args []Val) []Val {
		return []Val{{T: FieldOf(f.ex.viewOf(ns.st, args[0]), 0)}}
	}
	externals["(github.com/go-spatial/geom.Point).Y"] = func(f *Frame, ns *nodeState, x *ssa.Call, fn *ssa.Function, args []Val) []Val {
		return []Val{{T: FieldOf(f.ex.viewOf(ns.st, args[0]), 1)}}
	}
	externals["math.Abs"] = func(f *Frame, ns *nodeState, x *ssa.Call, fn *ssa.Function, args []Val) []Val {
		a := args[0].T
		return []Val{{T: Ite(leT(IntLit64(0, SReal), a), a, App(SReal, "-", a))}}
	}
}
