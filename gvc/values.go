package main

// Values, memory cells and access paths of the symbolic executor.

import (
	"fmt"
	"strings"
	"go/types"
	"math/big"

	"golang.org/x/tools/go/ssa"
)

type Cell struct {
	Name  string
	Sort  *Sort
	Type  types.Type
	ID    int
	Epoch int  // bumped when a map/slice valued sub-location is re-assigned as a whole
	Param bool // pointee of a pointer parameter (or a map parameter): old() refers to its entry value
	Ghost bool
	ReadOnly bool
	Reassigns []reassign // whole map/slice values stored at these sub-locations (for staleness of views)
}

type reassign struct {
	path []PathElem
	seq  int
}

type PathElem struct {
	Kind  byte // 'f' struct field, 'a' fixed array index, 's' slice element, 'm' map key, 'b' boxed pointer deref
	Field int
	Idx   Term
}

type LV struct {
	Cell  *Cell
	Path  []PathElem
	Epoch int
}

func (lv *LV) extend(pe PathElem) *LV {
	p := make([]PathElem, len(lv.Path)+1)
	copy(p, lv.Path)
	p[len(lv.Path)] = pe
	return &LV{Cell: lv.Cell, Path: p, Epoch: lv.Epoch}
}

// at: the same location, stamped with the current time (a view created now)
func (lv *LV) at(seq int) *LV { return &LV{Cell: lv.Cell, Path: lv.Path, Epoch: seq} }

func (lv *LV) String() string {
	s := lv.Cell.Name
	for _, p := range lv.Path {
		switch p.Kind {
		case 'f':
			s += fmt.Sprintf(".%d", p.Field)
		default:
			s += fmt.Sprintf("[%c %s]", p.Kind, p.Idx.S)
		}
	}
	return s
}

func sameLV(a, b *LV) bool {
	if a == nil || b == nil {
		return a == b
	}
	if a.Cell != b.Cell || len(a.Path) != len(b.Path) {
		return false
	}
	for i := range a.Path {
		if a.Path[i].Kind != b.Path[i].Kind || a.Path[i].Field != b.Path[i].Field || a.Path[i].Idx.S != b.Path[i].Idx.S {
			return false
		}
	}
	return true
}

// Val is the value of an SSA register.
type Val struct {
	T       Term  // data term (valid unless IsPtr/Tup/Fn)
	IsPtr   bool  // static pointer: address P (or nil pointer when P == nil)
	P       *LV   // address
	Origin  *LV   // for map / slice values: the location this value is a live view of
	Tup     []Val // tuple
	Fn      *ssa.Function
	Free    []Val
	Builtin string
	Iter    *Cell // range iterator state
	IterOf  *Val
	NilIf   Term   // for a static pointer with P != nil: the condition under which it is nil (zero Term: never)
	Shared  bool      // slice obtained by re-slicing another slice: its backing array has other live views
	Src     ssa.Value // for ghost views: the SSA value a viewed variable currently is
	Poison  string // merge of incompatible (dead) values: an error only if used
	LValue  bool // produced by a contract expression: the address stands for the value stored there
}

func TV(t Term) Val { return Val{T: t} }

type State map[*Cell]Term

func (s State) clone() State {
	n := make(State, len(s))
	for k, v := range s {
		n[k] = v
	}
	return n
}

// zeroTerm builds the zero value of a sort.
func (vc *VC) zeroTerm(s *Sort) Term {
	switch s.Kind {
	case KBool:
		return TFalse
	case KInt, KReal, KBV:
		return IntLit(big.NewInt(0), s)
	case KString:
		return vc.StrConst("")
	case KArray:
		return App(s, fmt.Sprintf("(as const %s)", s.Name), vc.zeroTerm(s.Elem))
	case KUnint:
		vc.DeclareFunOnce("zero_"+sanitize(s.Name), nil, s)
		return Atom("zero_"+sanitize(s.Name), s)
	case KData:
		switch s.Role {
		case "ptr", "iface":
			return Atom(s.Alt, s)
		case "slice":
			return MkData(s, vc.zeroTerm(s.Fields[0].Sort), IntLit64(0, SInt), TTrue)
		case "map":
			return MkData(s, vc.zeroTerm(s.Fields[0].Sort), vc.zeroTerm(s.Fields[1].Sort), IntLit64(0, SInt), TTrue)
		default:
			fs := make([]Term, len(s.Fields))
			for i, f := range s.Fields {
				fs[i] = vc.zeroTerm(f.Sort)
			}
			return MkData(s, fs...)
		}
	}
	panic("zeroTerm " + s.Name)
}

func (vc *VC) DeclareFunOnce(name string, args []*Sort, res *Sort) { vc.DeclareFun(name, args, res) }

func (vc *VC) StrConst(s string) Term {
	var b strings.Builder
	b.WriteByte('"')
	for _, r := range s {
		switch {
		case r == '"':
			b.WriteString(`""`)
		case r < 32 || r > 126 || r == '\\':
			fmt.Fprintf(&b, "\\u{%x}", r)
		default:
			b.WriteRune(r)
		}
	}
	b.WriteByte('"')
	return Term{S: b.String(), Sort: SStr}
}

// readPath reads the sub-value of root at path.
func (ex *Exec) readPath(root Term, path []PathElem) Term {
	cur := root
	for _, pe := range path {
		switch pe.Kind {
		case 'f':
			cur = FieldOf(cur, pe.Field)
		case 'a':
			cur = ArrayGet(cur, pe.Idx)
		case 's':
			cur = Select(slArr(cur), pe.Idx)
		case 'm':
			cur = Ite(Select(FieldOf(cur, 0), pe.Idx), Select(FieldOf(cur, 1), pe.Idx), ex.vc.zeroTerm(cur.Sort.Elem))
		case 'b':
			cur = FieldOf(cur, 0)
		}
	}
	return cur
}

// writePath returns root with the sub-value at path replaced by v.
func (ex *Exec) writePath(root Term, path []PathElem, v Term) Term {
	if len(path) == 0 {
		return v
	}
	pe := path[0]
	switch pe.Kind {
	case 'f':
		return WithField(root, pe.Field, ex.writePath(FieldOf(root, pe.Field), path[1:], v))
	case 'a':
		return ArraySet(root, pe.Idx, ex.writePath(ArrayGet(root, pe.Idx), path[1:], v))
	case 's':
		arr := slArr(root)
		at := pe.Idx
		return WithField(root, 0, Store(arr, at, ex.writePath(Select(arr, at), path[1:], v)))
	case 'm':
		dom := FieldOf(root, 0)
		val := FieldOf(root, 1)
		card := FieldOf(root, 2)
		inner := ex.writePath(Select(val, pe.Idx), path[1:], v)
		return MkData(root.Sort, Store(dom, pe.Idx, TTrue), Store(val, pe.Idx, inner), Ite(Select(dom, pe.Idx), card, addT(card, IntLit64(1, SInt))), TFalse)
	case 'b':
		return MkData(root.Sort, ex.writePath(FieldOf(root, 0), path[1:], v))
	}
	panic("writePath")
}

func addT(a, b Term) Term {
	if a.K != nil && b.K != nil && a.Sort.Kind != KBV {
		return IntLit(new(big.Int).Add(a.K, b.K), a.Sort)
	}
	if b.K != nil && b.K.Sign() == 0 {
		return a
	}
	if a.K != nil && a.K.Sign() == 0 {
		return b
	}
	return App(a.Sort, "+", a, b)
}

func subT(a, b Term) Term {
	if a.K != nil && b.K != nil && a.Sort.Kind != KBV {
		return IntLit(new(big.Int).Sub(a.K, b.K), a.Sort)
	}
	if b.K != nil && b.K.Sign() == 0 {
		return a
	}
	return App(a.Sort, "-", a, b)
}

// ratOf: the value of a numeric literal term
func ratOf(t Term) (*big.Rat, bool) {
	if t.K != nil {
		return new(big.Rat).SetInt(t.K), true
	}
	if t.Sort == nil || t.Sort.Kind != KReal || len(t.S) > 80 {
		return nil, false
	}
	forms, err := parseSx(t.S)
	if err != nil || len(forms) != 1 {
		return nil, false
	}
	if !literalOnly(forms[0]) {
		return nil, false
	}
	return modelRat(forms[0])
}

func literalOnly(v *sx) bool {
	if v.list == nil {
		return len(v.atom) > 0 && (v.atom[0] >= '0' && v.atom[0] <= '9')
	}
	if len(v.list) == 0 || (v.list[0].atom != "/" && v.list[0].atom != "-") {
		return false
	}
	for _, e := range v.list[1:] {
		if !literalOnly(e) {
			return false
		}
	}
	return true
}

func leT(a, b Term) Term {
	if a.K != nil && b.K != nil {
		return BoolT(a.K.Cmp(b.K) <= 0)
	}
	if ra, ok := ratOf(a); ok {
		if rb, ok := ratOf(b); ok {
			return BoolT(ra.Cmp(rb) <= 0)
		}
	}
	return App(SBool, "<=", a, b)
}

func ltT(a, b Term) Term {
	if a.K != nil && b.K != nil {
		return BoolT(a.K.Cmp(b.K) < 0)
	}
	if ra, ok := ratOf(a); ok {
		if rb, ok := ratOf(b); ok {
			return BoolT(ra.Cmp(rb) < 0)
		}
	}
	return App(SBool, "<", a, b)
}
