package main

import (
	"fmt"
	"os"
	"go/types"

	"golang.org/x/tools/go/ssa"
)

type chanModel struct{}

// globalCell: package-level variables. The initial value is what the package initialiser stores,
// provided no other function of the program stores to the variable; otherwise it is arbitrary.
func (ex *Exec) globalCell(g *ssa.Global) *Cell {
	if c, ok := ex.globals[g]; ok {
		return c
	}
	et := g.Type().Underlying().(*types.Pointer).Elem()
	c := ex.newCell("g_"+g.Name(), ex.vc.SortOf(et), et)
	ex.globals[g] = c
	init, ok := ex.globalInitValue(g, c)
	if !ok {
		init = ex.vc.Declare("g_"+g.Name(), c.Sort)
		ex.assumeRange(init, et, TTrue)
		ex.vc.assumeNote("package variable " + g.String() + " treated as arbitrary")
	}
	ex.globalInit[c] = init
	return c
}

// globalInitValue looks for the pattern `*g = <load of a composite literal built from constants>` in init
// and checks that g is written nowhere else in its package.
func (ex *Exec) globalInitValue(g *ssa.Global, c *Cell) (Term, bool) {
	pkg := g.Pkg
	initFn := pkg.Func("init")
	if initFn == nil {
		return Term{}, false
	}
	// no other writer
	for _, m := range pkg.Members {
		fn, ok := m.(*ssa.Function)
		if !ok {
			continue
		}
		fns := append([]*ssa.Function{fn}, fn.AnonFuncs...)
		for _, f := range fns {
			for _, b := range f.Blocks {
				for _, ins := range b.Instrs {
					if ex.writesGlobal(ins, g) && f != initFn {
						return Term{}, false
					}
				}
			}
		}
	}
	// methods
	for _, m := range pkg.Members {
		if t, ok := m.(*ssa.Type); ok {
			for _, recv := range []types.Type{t.Type(), types.NewPointer(t.Type())} {
				ms := ex.P.prog.MethodSets.MethodSet(recv)
				for i := 0; i < ms.Len(); i++ {
					f := ex.P.prog.MethodValue(ms.At(i))
					if f == nil {
						continue
					}
					for _, b := range f.Blocks {
						for _, ins := range b.Instrs {
							if ex.writesGlobal(ins, g) {
								return Term{}, false
							}
						}
					}
				}
			}
		}
	}
	// evaluate the stores of init symbolically: only constant stores into local composite literals
	locals := map[ssa.Value]Term{} // alloc -> current value
	var result Term
	found := false
	for _, b := range initFn.Blocks {
		for _, ins := range b.Instrs {
			switch x := ins.(type) {
			case *ssa.Alloc:
				et := x.Type().Underlying().(*types.Pointer).Elem()
				func() {
					defer func() { recover() }()
					locals[x] = ex.vc.zeroTerm(ex.vc.SortOf(et))
				}()
			case *ssa.Store:
				if ia, ok := x.Addr.(*ssa.IndexAddr); ok {
					base, isLocal := locals[ia.X]
					idx, isConst := ia.Index.(*ssa.Const)
					val, valConst := x.Val.(*ssa.Const)
					if isLocal && isConst && valConst && base.Sort.Role == "array" {
						locals[ia.X] = ArraySet(base, ex.constVal(idx).T, ex.constVal(val).T)
					}
					if ia.X == ssa.Value(g) && c.Sort.Role == "array" {
						if !isConst || !valConst {
							return Term{}, false
						}
						if !found {
							result = ex.vc.zeroTerm(c.Sort)
							found = true
						}
						result = ArraySet(result, ex.constVal(idx).T, ex.constVal(val).T)
					}
				} else if x.Addr == ssa.Value(g) {
					if ld, ok := x.Val.(*ssa.UnOp); ok {
						if v, ok := locals[ld.X]; ok {
							result = v
							found = true
						}
					} else if cv, ok := x.Val.(*ssa.Const); ok {
						result = ex.constVal(cv).T
						found = true
					}
				}
			}
		}
	}
	if os.Getenv("GVC_DEBUG") != "" {
		fmt.Fprintln(os.Stderr, "globalInit", g.Name(), found, result.Sort, c.Sort)
	}
	if found && sameSort(result.Sort, c.Sort) {
		return result, true
	}
	return Term{}, false
}

func (ex *Exec) writesGlobal(ins ssa.Instruction, g *ssa.Global) bool {
	st, ok := ins.(*ssa.Store)
	if !ok {
		return false
	}
	var root func(v ssa.Value) ssa.Value
	root = func(v ssa.Value) ssa.Value {
		switch x := v.(type) {
		case *ssa.IndexAddr:
			return root(x.X)
		case *ssa.FieldAddr:
			return root(x.X)
		}
		return v
	}
	return root(st.Addr) == ssa.Value(g)
}

func (f *Frame) rangeInstr(ns *nodeState, x *ssa.Range)   { f.ex.fail("range over %s", x.X.Type()) }
func (f *Frame) nextInstr(ns *nodeState, x *ssa.Next)     { f.ex.fail("next") }
func (f *Frame) runDefers(ns *nodeState)                  {}
func (f *Frame) deferInstr(ns *nodeState, x *ssa.Defer)   { f.ex.fail("defer") }
func (f *Frame) goInstr(ns *nodeState, x *ssa.Go)         { f.ex.fail("go statement") }
func (f *Frame) sendInstr(ns *nodeState, x *ssa.Send)     { f.ex.fail("channel send") }
func (f *Frame) makeChan(ns *nodeState, x *ssa.MakeChan)  { f.ex.fail("make(chan)") }
func (f *Frame) recvInstr(ns *nodeState, x *ssa.UnOp)     { f.ex.fail("channel receive") }
