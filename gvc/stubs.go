package main

import (
	"fmt"
	"os"
	"go/types"

	"golang.org/x/tools/go/ssa"
)

type chanModel struct{}

// globalCell: package-level variables. The initial value is what the package initialiser stores,
// provided no other function of the program stores to the variable; otherwise it is arbitrary.
func (ex *Exec) globalCell(g *ssa.Global) *Cell {
	if c, ok := ex.globals[g]; ok {
		return c
	}
	et := g.Type().Underlying().(*types.Pointer).Elem()
	c := ex.newCell("g_"+g.Name(), ex.vc.SortOf(et), et)
	ex.globals[g] = c
	init, ok := ex.globalInitValue(g, c)
	if !ok {
		init = ex.vc.Declare("g_"+g.Name(), c.Sort)
		ex.assumeRange(init, et, TTrue)
		ex.vc.assumeNote("package variable " + g.String() + " treated as arbitrary")
	}
	ex.globalInit[c] = init
	return c
}

// globalInitValue looks for the pattern `*g = <load of a composite literal built from constants>` in init
// and checks that g is written nowhere else in its package.
func (ex *Exec) globalInitValue(g *ssa.Global, c *Cell) (Term, bool) {
	pkg := g.Pkg
	initFn := pkg.Func("init")
	if initFn == nil {
		return Term{}, false
	}
	// no other writer
	for _, m := range pkg.Members {
		fn, ok := m.(*ssa.Function)
		if !ok {
			continue
		}
		fns := append([]*ssa.Function{fn}, fn.AnonFuncs...)
		for _, f := range fns {
			for _, b := range f.Blocks {
				for _, ins := range b.Instrs {
					if ex.writesGlobal(ins, g) && f != initFn {
						return Term{}, false
					}
				}
			}
		}
	}
	// methods
	for _, m := range pkg.Members {
		if t, ok := m.(*ssa.Type); ok {
			for _, recv := range []types.Type{t.Type(), types.NewPointer(t.Type())} {
				ms := ex.P.prog.MethodSets.MethodSet(recv)
				for i := 0; i < ms.Len(); i++ {
					f := ex.P.prog.MethodValue(ms.At(i))
					if f == nil {
						continue
					}
					for _, b := range f.Blocks {
						for _, ins := range b.Instrs {
							if ex.writesGlobal(ins, g) {
								return Term{}, false
							}
						}
					}
				}
			}
		}
	}
	// evaluate the stores of init symbolically: only constant stores into local composite literals
	locals := map[ssa.Value]Term{} // alloc -> current value
	var result Term
	found := false
	for _, b := range initFn.Blocks {
		for _, ins := range b.Instrs {
			switch x := ins.(type) {
			case *ssa.Alloc:
				et := x.Type().Underlying().(*types.Pointer).Elem()
				func() {
					defer func() { recover() }()
					locals[x] = ex.vc.zeroTerm(ex.vc.SortOf(et))
				}()
			case *ssa.Store:
				if ia, ok := x.Addr.(*ssa.IndexAddr); ok {
					base, isLocal := locals[ia.X]
					idx, isConst := ia.Index.(*ssa.Const)
					val, valConst := x.Val.(*ssa.Const)
					if isLocal && isConst && valConst && base.Sort.Role == "array" {
						locals[ia.X] = ArraySet(base, ex.constVal(idx).T, ex.constVal(val).T)
					}
					if ia.X == ssa.Value(g) && c.Sort.Role == "array" {
						if !isConst || !valConst {
							return Term{}, false
						}
						if !found {
							result = ex.vc.zeroTerm(c.Sort)
							found = true
						}
						result = ArraySet(result, ex.constVal(idx).T, ex.constVal(val).T)
					}
				} else if x.Addr == ssa.Value(g) {
					if ld, ok := x.Val.(*ssa.UnOp); ok {
						if v, ok := locals[ld.X]; ok {
							result = v
							found = true
						}
					} else if cv, ok := x.Val.(*ssa.Const); ok {
						result = ex.constVal(cv).T
						found = true
					}
				}
			}
		}
	}
	if os.Getenv("GVC_DEBUG") != "" {
		fmt.Fprintln(os.Stderr, "globalInit", g.Name(), found, result.Sort, c.Sort)
	}
	if found && sameSort(result.Sort, c.Sort) {
		return result, true
	}
	return Term{}, false
}

func (ex *Exec) writesGlobal(ins ssa.Instruction, g *ssa.Global) bool {
	st, ok := ins.(*ssa.Store)
	if !ok {
		return false
	}
	var root func(v ssa.Value) ssa.Value
	root = func(v ssa.Value) ssa.Value {
		switch x := v.(type) {
		case *ssa.IndexAddr:
			return root(x.X)
		case *ssa.FieldAddr:
			return root(x.X)
		}
		return v
	}
	return root(st.Addr) == ssa.Value(g)
}

// Range over a map: the iterator is a ghost set of the keys already produced. Each Next produces an arbitrary key
// of the current domain that has not been produced yet, or reports exhaustion when there is none; every property
// proved therefore holds for every iteration order. (Keys added during the iteration may or may not be produced,
// deleted ones are not: both allowed by the Go specification.)
func (f *Frame) rangeInstr(ns *nodeState, x *ssa.Range) {
	ex := f.ex
	mt, ok := x.X.Type().Underlying().(*types.Map)
	if !ok {
		ex.fail("range over %s", x.X.Type())
	}
	ks := ex.vc.SortOf(mt.Key())
	c := ex.newCell(f.prefix+x.Name()+"_seen", SArray(ks, SBool), nil)
	c.Ghost = true
	ns.st[c] = ex.vc.zeroTerm(c.Sort)
	mv := f.operand(ns.env, x.X)
	ns.env[x] = Val{Iter: c, IterOf: &mv}
	ex.iters = append(ex.iters, iterInfo{cell: c, rng: x})
}

type iterInfo struct {
	cell *Cell
	rng  *ssa.Range
}

func (f *Frame) nextInstr(ns *nodeState, x *ssa.Next) {
	ex := f.ex
	vc := ex.vc
	if x.IsString {
		ex.fail("range over a string")
	}
	it := f.operand(ns.env, x.Iter)
	if it.Iter == nil {
		ex.fail("next on a non-iterator")
	}
	mt := x.Iter.(*ssa.Range).X.Type().Underlying().(*types.Map)
	m := ex.viewOf(ns.st, *it.IterOf)
	seen := ns.st[it.Iter]
	ok := vc.Declare(f.prefix+x.Name()+"_ok", SBool)
	k := vc.Declare(f.prefix+x.Name()+"_k", m.Sort.Key)
	ex.assumeRange(k, mt.Key(), ns.reach)
	vc.Assume(Implies(ok, And(Select(mpDom(m), k), Not(Select(seen, k)))), "range: the next key is in the map and new")
	q := Atom("q_rk", m.Sort.Key)
	vc.Assume(Implies(Not(ok), Term{S: fmt.Sprintf("(forall ((q_rk %s)) (! %s :pattern (%s)))", m.Sort.Key.Name,
		Implies(Select(mpDom(m), q), Select(seen, q)).S, Select(mpDom(m), q).S), Sort: SBool}), "range: exhausted only when every key has been produced")
	ns.st[it.Iter] = vc.Define(f.prefix+x.Name()+"_seen", Ite(ok, Store(seen, k, TTrue), seen))
	ex.markWritten(it.Iter, -1)
	v := vc.Define(f.prefix+x.Name()+"_v", Select(mpVal(m), k))
	ex.assumeRange(v, mt.Elem(), ns.reach)
	rv := Val{T: v}
	if it.IterOf.Origin != nil && isRefType(mt.Elem()) {
		rv.Origin = it.IterOf.Origin.extend(PathElem{Kind: 'm', Idx: k}).at(ex.seq)
	}
	ns.env[x] = Val{Tup: []Val{{T: ok}, {T: k}, rv}}
}
func (f *Frame) runDefers(ns *nodeState)                  {}
func (f *Frame) deferInstr(ns *nodeState, x *ssa.Defer)   { f.ex.fail("defer") }
func (f *Frame) goInstr(ns *nodeState, x *ssa.Go)         { f.ex.fail("go statement") }
func (f *Frame) sendInstr(ns *nodeState, x *ssa.Send)     { f.ex.fail("channel send") }
func (f *Frame) makeChan(ns *nodeState, x *ssa.MakeChan)  { f.ex.fail("make(chan)") }
// recvInstr: `v, ok := <-ch` on a channel parameter. The value is arbitrary, ok is arbitrary (the sender and the
// scheduler are not modelled); what is modelled is this function's own history: when ok, v is appended to the ghost
// list recv_<ch>. A plain `<-ch` (without ok) is not supported.
func (f *Frame) recvInstr(ns *nodeState, x *ssa.UnOp) {
	ex, vc := f.ex, f.ex.vc
	if !x.CommaOk {
		ex.fail("channel receive without ok")
	}
	c, ok := ex.chanHist[x.X]
	if !ok {
		ex.fail("channel receive from a channel that is not a parameter")
	}
	ct := x.X.Type().Underlying().(*types.Chan)
	v := f.havocVal(ct.Elem(), f.prefix+x.Name()+"_v", ns.reach)
	okT := vc.Declare(f.prefix+x.Name()+"_ok", SBool)
	h := ns.st[c]
	ext := MkData(h.Sort, Store(slArr(h), slLen(h), v.T), addT(slLen(h), IntLit64(1, SInt)), TFalse)
	ns.st[c] = vc.Define(f.prefix+x.Name()+"_hist", Ite(okT, ext, h))
	ex.markWritten(c, -1)
	vc.assumeNote("channel receive: the received value and whether the channel is closed are arbitrary; the values received so far are recorded in a ghost list")
	ns.env[x] = Val{Tup: []Val{v, {T: okT}}}
}
