package main

// Loading the program and generating the obligations of one function / lemma.

import (
	"fmt"
	"go/types"
	"math/big"
	"os"
	"path/filepath"
	"runtime/debug"
	"sort"
	"strings"

	"golang.org/x/tools/go/packages"
	"golang.org/x/tools/go/ssa"
	"golang.org/x/tools/go/ssa/ssautil"
)

type bigInt = big.Int

var bigOne = big.NewInt(1)

const modulePath = "github.com/pdok/texel"

type Program struct {
	Repo      string
	SpecDir   string
	pkgs      []*packages.Package
	allPkgs   []*packages.Package
	prog      *ssa.Program
	ssaPkgs   map[string]*ssa.Package
	contracts *Contracts
	LoadSecs  float64
}

func LoadProgram(repo, specDir string, overlay map[string][]byte) (*Program, error) {
	cfg := &packages.Config{Mode: packages.LoadAllSyntax, Dir: repo, BuildFlags: []string{"-tags=verif"}, Overlay: overlay,
		Env: append(os.Environ(), "GOFLAGS=-mod=mod", "GOPROXY=off", "GOSUMDB=off", "GOTOOLCHAIN=local")}
	pkgs, err := packages.Load(cfg, "./...")
	if err != nil {
		return nil, err
	}
	var errs []string
	for _, p := range pkgs {
		for _, e := range p.Errors {
			errs = append(errs, e.Error())
		}
	}
	if len(errs) > 0 {
		return nil, fmt.Errorf("load errors: %s", strings.Join(errs, "; "))
	}
	prog, spkgs := ssautil.AllPackages(pkgs, ssa.InstantiateGenerics|ssa.GlobalDebug)
	prog.Build()
	p := &Program{Repo: repo, SpecDir: specDir, pkgs: pkgs, prog: prog, ssaPkgs: map[string]*ssa.Package{}}
	for i, sp := range spkgs {
		if sp != nil {
			p.ssaPkgs[pkgs[i].PkgPath] = sp
		}
	}
	seen := map[string]bool{}
	packages.Visit(pkgs, nil, func(pk *packages.Package) {
		if !seen[pk.PkgPath] {
			seen[pk.PkgPath] = true
			p.allPkgs = append(p.allPkgs, pk)
		}
	})
	sort.Slice(p.allPkgs, func(i, j int) bool { return p.allPkgs[i].PkgPath < p.allPkgs[j].PkgPath })
	cs, err := LoadContracts(repo, overlay)
	if err != nil {
		return nil, err
	}
	p.contracts = cs
	return p, nil
}

// findFunc resolves a contract key ("pointindex.(*PointIndex).InsertPoint") to its SSA function.
func (p *Program) findFunc(key string) *ssa.Function {
	i := strings.Index(key, ".")
	pkgRel, name := key[:i], key[i+1:]
	path := modulePath + "/" + pkgRel
	if pkgRel == "main" {
		path = modulePath
	}
	sp := p.ssaPkgs[path]
	if sp == nil {
		return nil
	}
	if strings.HasPrefix(name, "(") {
		// method
		j := strings.Index(name, ").")
		recv, m := name[1:j], name[j+2:]
		ptr := strings.HasPrefix(recv, "*")
		recv = strings.TrimPrefix(recv, "*")
		tn, ok := sp.Pkg.Scope().Lookup(recv).(*types.TypeName)
		if !ok {
			return nil
		}
		var t types.Type = tn.Type()
		if ptr {
			t = types.NewPointer(t)
		}
		sel := p.prog.MethodSets.MethodSet(t).Lookup(sp.Pkg, m)
		if sel == nil {
			return nil
		}
		return p.prog.MethodValue(sel)
	}
	fn := sp.Func(name)
	if fn != nil && fn.TypeParams().Len() > 0 {
		// a generic function: the body that exists in SSA form is that of an instantiation; take the first one
		// (in name order) that the program uses
		var insts []*ssa.Function
		for f := range ssautil.AllFunctions(p.prog) {
			if f.Origin() == fn {
				insts = append(insts, f)
			}
		}
		sort.Slice(insts, func(i, j int) bool { return insts[i].String() < insts[j].String() })
		if len(insts) > 0 {
			return insts[0]
		}
	}
	return fn
}

func (p *Program) findLemma(pkg, name string) *Lemma {
	if l, ok := p.contracts.Lemmas[pkg+"."+name]; ok {
		return l
	}
	// lemmas are visible across packages by bare name if unique
	var found *Lemma
	for _, l := range p.contracts.Lemmas {
		if l.Name == name {
			if found != nil {
				return nil
			}
			found = l
		}
	}
	return found
}

func (ex *Exec) pkgOfTop() string {
	if ex.top != nil {
		return ex.top.Pkg
	}
	return ex.lemmaPkg
}

func (ex *Exec) usedLemma(lm *Lemma) {
	k := lm.Pkg + "." + lm.Name
	for _, u := range ex.uses {
		if u == k {
			return
		}
	}
	ex.uses = append(ex.uses, k)
}

type FuncResult struct {
	Key      string
	VC       *VC
	Err      error // function could not be brought under the verifier (binding failure / outside the subset)
	Regions  []string
	Trusted  map[string]string
	External []string
	UnderCon []string
	Inlined  []string
	Lemmas   []string
	Mode     string
	IsLemma  bool
	Axiom    bool
}

func newExec(p *Program, vc *VC, prop string) *Exec {
	vc.lookupStruct = p.lookupStructFn()
	return &Exec{P: p, vc: vc, prop: prop, oblSeq: map[string]int{}, trusted: map[string]string{}, external: map[string]bool{},
		underCon: map[string]bool{}, inlined: map[string]bool{}, overflow: true, bits: 4, callSeq: map[string]int{},
		globalInit: map[*Cell]Term{}, globals: map[*ssa.Global]*Cell{}}
}

// GenFunc generates the obligations for one function under contract.
func (p *Program) GenFunc(fc *FuncContract, prop string) (res *FuncResult) {
	res = &FuncResult{Key: fc.Key(), Mode: fc.Mode}
	vc := NewVC(fc.Mode, fc.Key())
	vc.OpaqueMul = fc.OpaqueMul
	vc.OpaqueDiv = fc.OpaqueDiv
	res.VC = vc
	ex := newExec(p, vc, prop)
	ex.top = fc
	ex.noSafety = fc.NoSafety
	if fc.Bits > 0 {
		ex.bits = fc.Bits
	}
	defer func() {
		if r := recover(); r != nil {
			switch e := r.(type) {
			case unsupportedErr:
				res.Err = e
			case specError:
				res.Err = e
			default:
				res.Err = fmt.Errorf("internal error: %v\n%s", r, debug.Stack())
			}
		}
		res.Regions = ex.regions
		res.Trusted = ex.trusted
		res.External = sortedKeys(ex.external)
		res.UnderCon = sortedKeys(ex.underCon)
		res.Inlined = sortedKeys(ex.inlined)
		res.Lemmas = ex.uses
	}()
	fn := p.findFunc(fc.Key())
	if fn == nil {
		res.Err = fmt.Errorf("contract for %s: no such function in the source", fc.Key())
		return
	}
	if fc.Trusted != "" {
		ex.trusted[fc.Key()] = fc.Trusted
		return
	}
	for _, e := range fc.AssumedEnsures {
		vc.assumeNote("assumed, not proved: postcondition of " + fc.Key() + ": " + e.Text)
	}
	ex.topFn = fn
	for _, pl := range fc.Preludes {
		ex.needPrelude(pl)
	}
	f := &Frame{ex: ex, fn: fn, fc: fc, isTop: true}
	f.analyse()
	// every loop spec must bind to a loop
	for _, ls := range fc.Loops {
		bound := false
		for _, l := range f.loops {
			if l.spec == ls {
				bound = true
			}
		}
		if !bound {
			res.Err = fmt.Errorf("contract for %s: loop %q not found in the code", fc.Key(), ls.Key)
			return
		}
	}
	env := map[ssa.Value]Val{}
	names := map[string]Val{}
	st := State{}
	var inputs []ModelVar
	for _, prm := range fn.Params {
		v, mvs := f.paramVal(prm, st)
		env[prm] = v
		names[prm.Name()] = v
		inputs = append(inputs, mvs...)
	}
	// ghost lists (empty on entry) and receive histories of channel parameters (nothing received on entry)
	ex.ghostLists = map[string]*Cell{}
	ex.chanHist = map[ssa.Value]*Cell{}
	emptySlice := func(s *Sort) Term { return vc.zeroTerm(s) }
	for _, gl := range fc.GhostLists {
		srt := vc.sortByName(gl[1])
		c := ex.newCell("ghost_"+gl[0], srt, nil)
		st[c] = emptySlice(srt)
		ex.ghostLists[gl[0]] = c
	}
	for _, prm := range fn.Params {
		if ct, ok := prm.Type().Underlying().(*types.Chan); ok {
			srt := vc.SliceSortOf(vc.SortOf(ct.Elem()))
			c := ex.newCell("recv_"+prm.Name(), srt, nil)
			st[c] = emptySlice(srt)
			ex.chanHist[prm] = c
			ex.ghostLists["recv_"+prm.Name()] = c
		}
	}
	// ghost views
	ex.views = map[string]*viewCells{}
	for _, gv := range fc.Views {
		vw := &viewCells{key: gv.Key}
		vw.set = ex.newCell("gset_"+gv.Name, SArray(SInt, SBool), nil)
		vw.pos = ex.newCell("gpos_"+gv.Name, SArray(SInt, SInt), nil)
		vw.set.Ghost, vw.pos.Ghost = true, true
		st[vw.set] = vc.zeroTerm(vw.set.Sort)
		st[vw.pos] = vc.Declare("gpos_"+gv.Name+"_init", vw.pos.Sort)
		ex.views[gv.Name] = vw
	}
	entry := st.clone()
	ex.entry = entry
	old := &Scope{ex: ex, names: copyNames(names), st: entry, bound: map[string]Term{}}
	old.old = old
	f.oldScope = old
	sc := &Scope{ex: ex, names: names, st: st, old: old, bound: map[string]Term{}}
	for _, lt := range fc.Lets {
		t := vc.Define("let_"+lt.Name, sc.eval(lt.Expr))
		names[lt.Name] = Val{T: t}
		old.names[lt.Name] = Val{T: t}
	}
	var reqs []Term
	for _, r := range fc.Requires {
		t := sc.evalBool(r.Expr)
		vc.Assume(t, "requires "+r.Text)
		reqs = append(reqs, t)
	}
	for _, a := range fc.Assume {
		t := sc.evalBool(a.Expr)
		vc.Assume(t, "assume "+a.Text)
		vc.assumeNote("assumed (not checked) for " + fc.Key() + ": " + a.Text)
	}
	for _, u := range fc.Uses {
		vc.Assume(sc.evalBool(u.Expr), "lemma instance "+u.Text)
	}
	_ = vc.AssumeHeavy
	// vacuity guard: the preconditions are satisfiable
	ex.vc.AddObl(&Obligation{Name: fc.Key() + ".vacuity.requires", Kind: "vacuity", Hyp: TTrue, Goal: TTrue, Expect: Sat,
		Note: "the preconditions (and assumptions) are satisfiable", Inputs: inputs, NoReplay: true})
	// case splits: evaluated over the entry state; each split must be exhaustive
	var casesAt [][]Term
	for ci, alts := range fc.Cases {
		var ts []Term
		for _, a := range alts {
			ts = append(ts, vc.Define(fmt.Sprintf("case%d", ci+1), sc.evalBool(a.Expr)))
		}
		casesAt = append(casesAt, ts)
		ex.vc.AddObl(&Obligation{Name: fmt.Sprintf("%s.cases.%d.exhaustive", fc.Key(), ci+1), Kind: "cases", Hyp: TTrue, Goal: Or(ts...),
			Note: "the case split is exhaustive", NoReplay: true})
	}
	start := nodeState{reach: TTrue, env: env, names: names, st: st}
	f.params = names
	f.run(fn.Blocks[0], start)
	// returns
	res0 := fn.Signature.Results()
	for ri, r := range f.rets {
		rn := copyNames(r.names)
		for i := 0; i < res0.Len(); i++ {
			rn[fmt.Sprintf("result%d", i)] = r.results[i]
			if n := res0.At(i).Name(); n != "" && n != "_" {
				rn[n] = r.results[i]
			}
		}
		if res0.Len() == 1 {
			rn["result"] = r.results[0]
		}
		// parameters keep their entry values in postconditions (Go parameters are local copies)
		for _, prm := range fn.Params {
			// (a slice/map/pointer parameter still denotes the caller's object, read in the state at return)
			rn[prm.Name()] = old.names[prm.Name()]
		}
		rsc := &Scope{ex: ex, names: rn, st: r.st, old: old, bound: map[string]Term{}}
		for _, lt := range fc.PostLets {
			func() {
				defer func() {
					if r := recover(); r != nil {
						se, isSpec := r.(specError)
						if !isSpec {
							panic(r)
						}
						// a postlet that names a local variable which does not exist yet on this return path denotes
						// that variable's zero value there (nil for maps and slices)
						if lt.Expr.Op == "id" {
							if t := localTypeByName(fn, lt.Expr.Name); t != nil {
								rn[lt.Name] = Val{T: vc.zeroTerm(vc.SortOf(t))}
								return
							}
						}
						panic(se)
					}
				}()
				rn[lt.Name] = Val{T: vc.Define("plet_"+lt.Name, rsc.eval(lt.Expr))}
			}()
		}
		for _, w := range fc.Witness {
			if _, bound := rn[w.Name]; bound {
				continue // an earlier witness clause for this name was evaluable on this path
			}
			func() {
				defer func() {
					if r := recover(); r != nil {
						if _, isSpec := r.(specError); !isSpec {
							panic(r)
						}
						// the witness expression mentions names not bound on this return path: it stays arbitrary
						// there (proving the clause for an arbitrary value is the stronger statement)
						last := true
						for _, w2 := range fc.Witness {
							if w2 != w && w2.Name == w.Name && w2.Line > w.Line {
								last = false
							}
						}
						if last {
							rn[w.Name] = Val{T: vc.Declare("wit_"+w.Name+"_arbitrary", vc.sortByName(witnessSort(fc, w.Name)))}
						}
					}
				}()
				rn[w.Name] = Val{T: vc.Define("wit_"+w.Name, rsc.eval(w.Expr))}
			}()
		}
		for _, u := range fc.PostUses {
			vc.Assume(Implies(r.reach, rsc.evalBool(u.Expr)), "lemma instance "+u.Text)
		}
		var outs []ModelVar
		outs = append(outs, inputs...)
		proved := map[int]Term{} // postconditions already stated at this return, usable as `using post(k)` by later ones
		for i, e := range fc.Ensures {
			if !hasProp(e.Props, prop) {
				continue
			}
			goal, extra := rsc.evalGoal(e.Expr)
			if len(extra) == 0 {
				proved[i+1] = goal
			} else {
				// a quantified postcondition: later clauses may use the statement itself (not its skolemised goal)
				proved[i+1] = rsc.evalBool(e.Expr)
			}
			minItem := 0
			for _, u := range e.Using {
				if u.Op == "id" && u.Name == "only" {
					// `using only; post(3); ...`: nothing but the listed facts (and type ranges) is given to the solver
					minItem = len(vc.items)
					continue
				}
				if u.Op == "call" && u.Name == "post" && len(u.Args) == 1 && u.Args[0].Op == "lit" {
					var k int
					fmt.Sscanf(u.Args[0].Name, "%d", &k)
					g, ok := proved[k]
					if !ok || k >= i+1 {
						panic(specError{fmt.Sprintf("using post(%d): only an earlier postcondition of the same property can be used", k)})
					}
					extra = append(extra, fmt.Sprintf("(assert %s)", Implies(r.reach, g).S))
					continue
				}
				extra = append(extra, fmt.Sprintf("(assert %s)", Implies(r.reach, rsc.evalBool(u)).S))
			}
			name := fmt.Sprintf("%s.post.%d", fc.Key(), i+1)
			if len(f.rets) > 1 {
				name = fmt.Sprintf("%s@ret%d", name, ri+1)
			}
			if len(fc.Cases) == 0 || r.reach.B != nil {
				ex.obl(&Obligation{Name: name, Kind: "post", Props: e.Props, Hyp: r.reach, Goal: goal, Extra: extra, Note: "postcondition: " + e.Text,
					Pos: f.pos(r.pos), Inputs: outs, MinItem: minItem})
			} else {
				// one obligation per combination of the case splits (the splits are shown exhaustive separately)
				combos := [][]int{{}}
				for _, alts := range fc.Cases {
					var next [][]int
					for _, c := range combos {
						for k := range alts {
							next = append(next, append(append([]int(nil), c...), k))
						}
					}
					combos = next
				}
				for _, c := range combos {
					var hyps []Term
					var label []string
					for ci, k := range c {
						hyps = append(hyps, casesAt[ci][k])
						label = append(label, fmt.Sprint(k+1))
					}
					ex.obl(&Obligation{Name: name + "@case" + strings.Join(label, "."), Kind: "post", Props: e.Props, Hyp: And(append([]Term{r.reach}, hyps...)...),
						Goal: goal, Extra: extra, Note: "postcondition: " + e.Text + " (case " + strings.Join(label, ".") + ")", Pos: f.pos(r.pos), Inputs: outs})
				}
			}
		}
		// frame: everything reachable through pointer parameters that is not listed in `modifies` is unchanged
		f.frameCheck(fc, rsc, r, ri, len(f.rets))
	}
	// panics
	if len(fc.Panics) > 0 {
		var ps []Term
		for _, pc := range fc.Panics {
			ps = append(ps, sc.evalBool(pc.Expr))
		}
		spec := Or(ps...)
		var reach []Term
		for _, pe := range ex.panics {
			reach = append(reach, pe.reach)
		}
		pr := Or(reach...)
		var props []string
		for _, pc := range fc.Panics {
			props = append(props, pc.Props...)
		}
		if hasProp(props, prop) {
			ex.obl(&Obligation{Name: fc.Key() + ".panics.only-when", Kind: "panics", Props: props, Hyp: pr, Goal: spec, Note: "the function panics only under the stated condition", Inputs: inputs})
			ex.obl(&Obligation{Name: fc.Key() + ".panics.whenever", Kind: "panics", Props: props, Hyp: spec, Goal: pr, Note: "the function panics whenever the stated condition holds", Inputs: inputs})
		}
	} else if fc.MayPanic {
		for _, np := range fc.NoPanicFrom {
			if !hasProp(np.Props, prop) {
				continue
			}
			n := 0
			for _, pe := range ex.panics {
				if strings.Contains(pe.what, "."+np.Text+" panics (") || strings.HasPrefix(pe.what, "callee "+np.Text+" panics (") {
					n++
					ex.obl(&Obligation{Name: fmt.Sprintf("%s.nopanic.%s@%d", fc.Key(), sanitize(np.Text), n), Kind: "safety", Props: np.Props, Hyp: pe.reach, Goal: TFalse,
						Note: "unreachable although the function may panic elsewhere: " + pe.what, Inputs: inputs})
				}
			}
			if n == 0 {
				panic(specError{"nopanic " + np.Text + ": no call of a function of that name with a panics clause"})
			}
		}
	} else if !fc.MayPanic {
		for i, pe := range ex.panics {
			ex.obl(&Obligation{Name: fmt.Sprintf("%s.safety.panic@%d", fc.Key(), i+1), Kind: "safety", Hyp: pe.reach, Goal: TFalse, Note: "unreachable: " + pe.what, Inputs: inputs})
		}
	}
	// tag safety obligations with inputs for replay
	for _, o := range vc.Obls {
		if len(o.Inputs) == 0 && !o.NoReplay {
			o.Inputs = inputs
		}
	}
	return
}

// evalGoal evaluates a postcondition; a top-level `forall(x Sort, body)` is skolemised.
func (sc *Scope) evalGoal(e *SExpr) (Term, []string) {
	var extra []string
	cur := e
	inner := sc
	var guards []Term
	for {
		if cur.Op == "binder" && cur.Name == "forall" && len(cur.Vars) > 0 {
			for _, v := range cur.Vars {
				s := sc.ex.vc.sortByName(v.Sort)
				name := sc.ex.vc.Fresh("sk_" + v.Name)
				extra = append(extra, fmt.Sprintf("(declare-const %s %s)", name, s.Name))
				inner = inner.with(v.Name, Atom(name, s))
			}
			cur = cur.Args[0] // (a trigger(...) argument is irrelevant once the variables are skolem constants)
			continue
		}
		if cur.Op == "bin" && cur.Name == "==>" && cur.Args[1].Op == "binder" && cur.Args[1].Name == "forall" && len(cur.Args[1].Vars) > 0 {
			guards = append(guards, inner.evalBool(cur.Args[0]))
			cur = cur.Args[1]
			continue
		}
		break
	}
	t := inner.evalBool(cur)
	if len(guards) > 0 {
		t = Implies(And(guards...), t)
	}
	return t, extra
}

func (f *Frame) paramVal(prm *ssa.Parameter, st State) (Val, []ModelVar) {
	ex := f.ex
	vc := ex.vc
	t := prm.Type()
	name := "p_" + prm.Name()
	switch u := t.Underlying().(type) {
	case *types.Pointer:
		es := vc.SortOf(u.Elem())
		c := ex.newCell(prm.Name(), es, u.Elem())
		c.Param = true
		init := vc.Declare(name, es)
		ex.assumeRange(init, u.Elem(), TTrue)
		st[c] = init
		vc.assumeNote(fmt.Sprintf("pointer parameter %s of %s is non-nil and not aliased by other parameters", prm.Name(), f.fn.Name()))
		return Val{IsPtr: true, P: &LV{Cell: c}}, []ModelVar{{Name: prm.Name(), Term: init, Type: t}}
	case *types.Map, *types.Slice:
		s := vc.SortOf(t)
		c := ex.newCell(prm.Name(), s, t)
		c.Param = true
		init := vc.Declare(name, s)
		ex.assumeRange(init, t, TTrue)
		st[c] = init
		return Val{T: init, Origin: &LV{Cell: c}}, []ModelVar{{Name: prm.Name(), Term: init, Type: t}}
	case *types.Signature:
		ex.fail("function-typed parameter %s", prm.Name())
	}
	v := f.havocVal(t, name, TTrue)
	return v, []ModelVar{{Name: prm.Name(), Term: v.T, Type: t}}
}

// frameCheck: for every pointer/map/slice parameter, what `modifies` does not list is unchanged at return.
func (f *Frame) frameCheck(fc *FuncContract, rsc *Scope, r retEdge, ri, nrets int) {
	ex := f.ex
	if ex.noSafety {
		return
	}
	var cells []*Cell
	for c := range ex.entry {
		if c.Param {
			cells = append(cells, c)
		}
	}
	sort.Slice(cells, func(i, j int) bool { return cells[i].ID < cells[j].ID })
	for _, c := range cells {
		cur, ok := r.st[c]
		if !ok {
			continue
		}
		old := ex.entry[c]
		if cur.S == old.S {
			continue
		}
		// expected: old with the modified locations replaced by their current values
		exp := old
		for _, m := range fc.Modifies {
			lv := rsc.lvalue(m.Expr)
			if lv.Cell != c {
				continue
			}
			exp = ex.writePath(exp, lv.Path, ex.readPath(cur, lv.Path))
		}
		name := fmt.Sprintf("%s.frame.%s", fc.Key(), strings.Split(c.Name, "@")[0])
		if nrets > 1 {
			name = fmt.Sprintf("%s@ret%d", name, ri+1)
		}
		ex.obl(&Obligation{Name: name, Kind: "frame", Hyp: r.reach, Goal: Eq(cur, exp), Note: "nothing outside the modifies clause changes", Pos: f.pos(r.pos)})
	}
}

// GenLemma generates the obligation of a lemma (or nothing for an axiom).
func (p *Program) GenLemma(lm *Lemma, prop string) (res *FuncResult) {
	key := lm.Pkg + "." + lm.Name
	res = &FuncResult{Key: "lemma:" + key, Mode: lm.Mode, IsLemma: true, Axiom: lm.Axiom}
	vc := NewVC(lm.Mode, "lemma:"+key)
	res.VC = vc
	ex := newExec(p, vc, prop)
	ex.lemmaPkg = lm.Pkg
	defer func() {
		if r := recover(); r != nil {
			switch e := r.(type) {
			case unsupportedErr:
				res.Err = e
			case specError:
				res.Err = e
			default:
				res.Err = fmt.Errorf("internal error: %v\n%s", r, debug.Stack())
			}
		}
		res.Lemmas = ex.uses
	}()
	for _, pl := range lm.Preludes {
		ex.needPrelude(pl)
	}
	if lm.Axiom {
		return
	}
	sc := &Scope{ex: ex, names: map[string]Val{}, st: State{}, bound: map[string]Term{}}
	var inputs []ModelVar
	for _, prm := range lm.Params {
		s := vc.sortByName(prm.Sort)
		c := vc.Declare("l_"+prm.Name, s)
		sc.bound[prm.Name] = c
		inputs = append(inputs, ModelVar{Name: prm.Name, Term: c})
	}
	for _, r := range lm.Requires {
		vc.Assume(sc.evalBool(r.Expr), "lemma hypothesis "+r.Text)
	}
	for _, u := range lm.Uses {
		vc.Assume(sc.evalBool(u.Expr), "lemma instance "+u.Text)
	}
	vc.AddObl(&Obligation{Name: "lemma:" + key + ".vacuity", Kind: "vacuity", Hyp: TTrue, Goal: TTrue, Expect: Sat, Note: "lemma hypotheses are satisfiable", NoReplay: true})
	for i, e := range lm.Ensures {
		goal, extra := sc.evalGoal(e.Expr)
		vc.AddObl(&Obligation{Name: fmt.Sprintf("lemma:%s.%d", key, i+1), Kind: "lemma", Props: lm.Props, Hyp: TTrue, Goal: goal, Extra: extra, Note: "lemma: " + e.Text, Inputs: inputs, NoReplay: true})
	}
	return
}

func witnessSort(fc *FuncContract, name string) string {
	if fc.Mode == "real" {
		return "Real"
	}
	return "Int"
}

func specDirDefault() string {
	exe, err := os.Executable()
	if err == nil {
		d := filepath.Join(filepath.Dir(filepath.Dir(exe)), "spec")
		if _, err := os.Stat(d); err == nil {
			return d
		}
	}
	return "/verif/spec"
}

// localTypeByName: the type of the (first) local variable of fn with this source name, from its debug references.
func localTypeByName(fn *ssa.Function, name string) types.Type {
	for _, b := range fn.Blocks {
		for _, ins := range b.Instrs {
			if d, ok := ins.(*ssa.DebugRef); ok {
				if obj := d.Object(); obj != nil && obj.Name() == name {
					if _, isVar := obj.(*types.Var); isVar {
						return obj.Type()
					}
				}
			}
		}
	}
	return nil
}
