package main

// Parser for the contract expression language (Go-like expressions plus ==>, <==>,
// forall/exists written as calls).

import (
	"fmt"
	"strings"
)

type SExpr struct {
	Op   string   // "lit", "id", "sel", "idx", "call", "un", "bin", "binder"
	Name string   // id name, field name, callee, operator
	Args []*SExpr // operands
	Vars []LemmaParam
	Pos  int
}

func (e *SExpr) String() string {
	switch e.Op {
	case "lit", "id":
		return e.Name
	case "sel":
		return e.Args[0].String() + "." + e.Name
	case "idx":
		return e.Args[0].String() + "[" + e.Args[1].String() + "]"
	case "un":
		return e.Name + e.Args[0].String()
	case "bin":
		return "(" + e.Args[0].String() + " " + e.Name + " " + e.Args[1].String() + ")"
	case "call", "binder":
		var as []string
		for _, v := range e.Vars {
			as = append(as, v.Name+" "+v.Sort)
		}
		for _, a := range e.Args {
			as = append(as, a.String())
		}
		return e.Name + "(" + strings.Join(as, ", ") + ")"
	}
	return "?"
}

type tok struct {
	kind string // "id", "num", "op", "eof"
	s    string
	pos  int
}

func lexSpec(s string) ([]tok, error) {
	var ts []tok
	i := 0
	ops := []string{"<==>", "==>", "<<", ">>", "<=", ">=", "==", "!=", "&&", "||", "+", "-", "*", "/", "%", "<", ">", "!", "&", "|", "^", "(", ")", "[", "]", ",", "."}
	for i < len(s) {
		c := s[i]
		if c == ' ' || c == '\t' {
			i++
			continue
		}
		if c >= '0' && c <= '9' {
			j := i
			for j < len(s) && (s[j] >= '0' && s[j] <= '9' || s[j] >= 'a' && s[j] <= 'f' || s[j] >= 'A' && s[j] <= 'F' || s[j] == 'x' || s[j] == 'X' || s[j] == '_' || (s[j] == '.' && j+1 < len(s) && s[j+1] >= '0' && s[j+1] <= '9')) {
				j++
			}
			ts = append(ts, tok{"num", strings.ReplaceAll(s[i:j], "_", ""), i})
			i = j
			continue
		}
		if c == '_' || c >= 'a' && c <= 'z' || c >= 'A' && c <= 'Z' {
			j := i
			for j < len(s) && (s[j] == '_' || s[j] == '\'' || s[j] >= 'a' && s[j] <= 'z' || s[j] >= 'A' && s[j] <= 'Z' || s[j] >= '0' && s[j] <= '9') {
				j++
			}
			ts = append(ts, tok{"id", s[i:j], i})
			i = j
			continue
		}
		if c == '"' {
			j := strings.IndexByte(s[i+1:], '"')
			if j < 0 {
				return nil, fmt.Errorf("unterminated string at %d", i)
			}
			ts = append(ts, tok{"str", s[i+1 : i+1+j], i})
			i += j + 2
			continue
		}
		matched := false
		for _, op := range ops {
			if strings.HasPrefix(s[i:], op) {
				ts = append(ts, tok{"op", op, i})
				i += len(op)
				matched = true
				break
			}
		}
		if !matched {
			return nil, fmt.Errorf("unexpected character %q at %d", c, i)
		}
	}
	ts = append(ts, tok{"eof", "", len(s)})
	return ts, nil
}

type specParser struct {
	ts []tok
	i  int
}

func ParseSpec(s string) (*SExpr, error) {
	ts, err := lexSpec(s)
	if err != nil {
		return nil, err
	}
	p := &specParser{ts: ts}
	e, err := p.expr(0)
	if err != nil {
		return nil, err
	}
	if p.peek().kind != "eof" {
		return nil, fmt.Errorf("unexpected %q at %d", p.peek().s, p.peek().pos)
	}
	return e, nil
}

func (p *specParser) peek() tok { return p.ts[p.i] }
func (p *specParser) next() tok { t := p.ts[p.i]; p.i++; return t }

var binPrec = map[string]int{
	"<==>": 1, "==>": 2, "||": 3, "&&": 4,
	"==": 5, "!=": 5, "<": 5, "<=": 5, ">": 5, ">=": 5,
	"|": 6, "^": 6, "&": 7, "<<": 8, ">>": 8, "+": 9, "-": 9, "*": 10, "/": 10, "%": 10,
}

func (p *specParser) expr(minPrec int) (*SExpr, error) {
	lhs, err := p.unary()
	if err != nil {
		return nil, err
	}
	for {
		t := p.peek()
		if t.kind != "op" {
			break
		}
		prec, ok := binPrec[t.s]
		if !ok || prec < minPrec {
			break
		}
		p.next()
		nextMin := prec + 1
		if t.s == "==>" {
			nextMin = prec // right associative
		}
		rhs, err := p.expr(nextMin)
		if err != nil {
			return nil, err
		}
		lhs = &SExpr{Op: "bin", Name: t.s, Args: []*SExpr{lhs, rhs}, Pos: t.pos}
	}
	return lhs, nil
}

func (p *specParser) unary() (*SExpr, error) {
	t := p.peek()
	if t.kind == "op" && (t.s == "!" || t.s == "-") {
		p.next()
		x, err := p.unary()
		if err != nil {
			return nil, err
		}
		return &SExpr{Op: "un", Name: t.s, Args: []*SExpr{x}, Pos: t.pos}, nil
	}
	return p.postfix()
}

func (p *specParser) postfix() (*SExpr, error) {
	t := p.next()
	var e *SExpr
	switch {
	case t.kind == "num":
		e = &SExpr{Op: "lit", Name: t.s, Pos: t.pos}
	case t.kind == "str":
		e = &SExpr{Op: "str", Name: t.s, Pos: t.pos}
	case t.kind == "id":
		e = &SExpr{Op: "id", Name: t.s, Pos: t.pos}
	case t.kind == "op" && t.s == "(":
		x, err := p.expr(0)
		if err != nil {
			return nil, err
		}
		if c := p.next(); c.s != ")" {
			return nil, fmt.Errorf("expected ) at %d", c.pos)
		}
		e = x
	default:
		return nil, fmt.Errorf("unexpected %q at %d", t.s, t.pos)
	}
	for {
		t := p.peek()
		if t.kind != "op" {
			break
		}
		switch t.s {
		case ".":
			p.next()
			f := p.next()
			if f.kind != "id" && f.kind != "num" {
				return nil, fmt.Errorf("expected field name at %d", f.pos)
			}
			e = &SExpr{Op: "sel", Name: f.s, Args: []*SExpr{e}, Pos: t.pos}
		case "[":
			p.next()
			x, err := p.expr(0)
			if err != nil {
				return nil, err
			}
			if c := p.next(); c.s != "]" {
				return nil, fmt.Errorf("expected ] at %d", c.pos)
			}
			e = &SExpr{Op: "idx", Args: []*SExpr{e, x}, Pos: t.pos}
		case "(":
			if e.Op != "id" {
				return nil, fmt.Errorf("call of non-identifier at %d", t.pos)
			}
			p.next()
			call := &SExpr{Op: "call", Name: e.Name, Pos: e.Pos}
			isBinder := e.Name == "forall" || e.Name == "exists"
			for p.peek().s != ")" {
				// binder variable: ident SortIdent
				if isBinder && p.peek().kind == "id" && p.ts[p.i+1].kind == "id" {
					v := p.next()
					s := p.next()
					call.Vars = append(call.Vars, LemmaParam{v.s, s.s})
				} else {
					a, err := p.expr(0)
					if err != nil {
						return nil, err
					}
					call.Args = append(call.Args, a)
				}
				if p.peek().s == "," {
					p.next()
				} else if p.peek().s != ")" {
					return nil, fmt.Errorf("expected , or ) at %d", p.peek().pos)
				}
			}
			p.next()
			if isBinder {
				call.Op = "binder"
			}
			e = call
		default:
			return e, nil
		}
	}
	return e, nil
}
