package main

// Instruction semantics.

import (
	"fmt"
	"go/ast"
	"os"
	"go/constant"
	"go/token"
	"go/types"
	"math/big"

	"golang.org/x/tools/go/ssa"
)

func (f *Frame) operand(env map[ssa.Value]Val, v ssa.Value) Val {
	ex := f.ex
	switch x := v.(type) {
	case *ssa.Const:
		return ex.constVal(x)
	case *ssa.Global:
		return Val{IsPtr: true, P: &LV{Cell: ex.globalCell(x)}}
	case *ssa.Function:
		return Val{Fn: x}
	case *ssa.Builtin:
		return Val{Builtin: x.Name()}
	}
	if r, ok := env[v]; ok {
		if r.Poison != "" {
			ex.fail("%s", r.Poison)
		}
		return r
	}
	ex.fail("value %s (%T) not in environment of %s", v.Name(), v, f.fn.Name())
	return Val{}
}

func (ex *Exec) constVal(c *ssa.Const) Val {
	t := c.Type()
	if c.Value == nil {
		// zero value / nil
		switch u := t.Underlying().(type) {
		case *types.Pointer:
			_ = u
			return Val{IsPtr: true, P: nil}
		case *types.Basic:
			if u.Kind() == types.UntypedNil {
				return Val{T: Atom("nil_Iface", ex.vc.IfaceSort())}
			}
		}
		return Val{T: ex.vc.zeroTerm(ex.vc.SortOf(t))}
	}
	s := ex.vc.SortOf(t)
	switch c.Value.Kind() {
	case constant.Bool:
		return Val{T: BoolT(constant.BoolVal(c.Value))}
	case constant.Int:
		k, _ := new(big.Int).SetString(c.Value.ExactString(), 10)
		return Val{T: IntLit(k, s)}
	case constant.Float:
		if s.Kind == KReal {
			return Val{T: realLit(c.Value)}
		}
		if s.Kind == KInt || s.Kind == KBV {
			k, _ := new(big.Int).SetString(constant.ToInt(c.Value).ExactString(), 10)
			return Val{T: IntLit(k, s)}
		}
	case constant.String:
		return Val{T: ex.vc.StrConst(constant.StringVal(c.Value))}
	}
	ex.fail("constant %s", c)
	return Val{}
}

func realLit(v constant.Value) Term {
	r := new(big.Rat)
	if i := constant.ToInt(v); i.Kind() == constant.Int {
		k, _ := new(big.Int).SetString(i.ExactString(), 10)
		r.SetInt(k)
	} else {
		num, _ := new(big.Int).SetString(constant.Num(v).ExactString(), 10)
		den, _ := new(big.Int).SetString(constant.Denom(v).ExactString(), 10)
		r.SetFrac(num, den)
	}
	return ratTerm(r)
}

func ratTerm(r *big.Rat) Term {
	neg := r.Sign() < 0
	a := new(big.Rat).Abs(r)
	var s string
	if a.IsInt() {
		s = a.Num().String() + ".0"
	} else {
		s = fmt.Sprintf("(/ %s.0 %s.0)", a.Num().String(), a.Denom().String())
	}
	if neg {
		s = "(- " + s + ")"
	}
	t := Term{S: s, Sort: SReal}
	if r.IsInt() {
		t.K = new(big.Int).Set(r.Num())
	}
	return t
}

// ---- memory ----

func (ex *Exec) cellValue(st State, c *Cell) Term {
	if t, ok := st[c]; ok {
		return t
	}
	if t, ok := ex.globalInit[c]; ok {
		return t
	}
	ex.fail("cell %s not live", c.Name)
	return Term{}
}

func (ex *Exec) loadLV(st State, lv *LV) Term {
	return ex.readPath(ex.cellValue(st, lv.Cell), lv.Path)
}

func (ex *Exec) storeLV(st State, lv *LV, v Term) {
	if lv.Cell.ReadOnly {
		ex.fail("store through a pointer into immutable (boxed) data: %s", lv)
	}
	root := ex.cellValue(st, lv.Cell)
	nv := ex.writePath(root, lv.Path, v)
	st[lv.Cell] = ex.vc.Define("c_"+lv.Cell.Name, nv)
	if len(lv.Path) > 0 && lv.Path[0].Kind == 'f' {
		ex.markWritten(lv.Cell, lv.Path[0].Field)
	} else {
		ex.markWritten(lv.Cell, -1)
	}
}

// viewOf: the current data term of a value, re-reading the origin for live views.
func (ex *Exec) viewOf(st State, v Val) Term {
	if v.Origin != nil {
		for _, ra := range v.Origin.Cell.Reassigns {
			if ra.seq > v.Origin.Epoch && pathMayBePrefix(ra.path, v.Origin.Path) {
				ex.fail("use of a map/slice view of %s after the location (or a container of it) was re-assigned", v.Origin)
			}
		}
		return ex.loadLV(st, v.Origin)
	}
	return v.T
}

// pathMayBePrefix: could location p be v itself or a container of v? (indices that differ syntactically may be equal)
func pathMayBePrefix(p, v []PathElem) bool {
	if len(p) > len(v) {
		return false
	}
	for i := range p {
		if p[i].Kind != v[i].Kind {
			return false
		}
		if p[i].Kind == 'f' && p[i].Field != v[i].Field {
			return false
		}
	}
	return true
}

// noteReassign records that a whole map/slice value was stored at lv.
func (ex *Exec) noteReassign(lv *LV) {
	ex.seq++
	lv.Cell.Reassigns = append(lv.Cell.Reassigns, reassign{path: append([]PathElem(nil), lv.Path...), seq: ex.seq})
}

// toData converts any value to a data term (static pointers are boxed with the current pointee value).
func (ex *Exec) toData(st State, v Val, t types.Type) Term {
	if v.IsPtr {
		ps := ex.vc.SortOf(t)
		if v.P == nil {
			return Atom(ps.Alt, ps)
		}
		ex.vc.assumeNote("pointer stored as data is modelled as an immutable box of the pointee's value at that moment (pointee not mutated afterwards, identity never compared)")
		if v.NilIf.Sort != nil {
			return Ite(v.NilIf, Atom(ps.Alt, ps), MkData(ps, ex.loadLV(st, v.P)))
		}
		return MkData(ps, ex.loadLV(st, v.P))
	}
	if v.Fn != nil || v.Builtin != "" {
		ex.fail("function value used as data")
	}
	return ex.viewOf(st, v)
}

// derefPtr turns a pointer value (static or boxed) into an address that can be loaded from.
func (f *Frame) derefPtr(ns *nodeState, v Val, elem types.Type, what string, pos token.Pos) *LV {
	ex := f.ex
	if v.IsPtr {
		if v.P == nil {
			ex.obl(&Obligation{Name: f.safetyName("nilderef"), Kind: "safety", Hyp: ns.reach, Goal: TFalse, Note: "nil pointer dereference: " + what, Pos: f.pos(pos)})
			// continue with an arbitrary cell
			c := ex.newCell("nilderef", ex.vc.SortOf(elem), elem)
			ns.st[c] = ex.vc.Declare("nilderef", c.Sort)
			return &LV{Cell: c}
		}
		if v.NilIf.Sort != nil {
			ex.obl(&Obligation{Name: f.safetyName("nilderef"), Kind: "safety", Hyp: ns.reach, Goal: Not(v.NilIf), Note: "nil pointer dereference: " + what, Pos: f.pos(pos)})
		}
		return v.P
	}
	// boxed pointer: read-only cell with the pointee snapshot
	ps := v.T.Sort
	if ps.Role != "ptr" {
		ex.fail("dereference of non-pointer %s", v.T.S)
	}
	ex.obl(&Obligation{Name: f.safetyName("nilderef"), Kind: "safety", Hyp: ns.reach, Goal: Not(Eq(v.T, Atom(ps.Alt, ps))), Note: "nil pointer dereference: " + what, Pos: f.pos(pos)})
	c := ex.newCell("box", ps.Elem, elem)
	c.ReadOnly = true
	ns.st[c] = FieldOf(v.T, 0)
	return &LV{Cell: c}
}

func (f *Frame) safetyName(kind string) string {
	k := f.oblBase() + ".safety." + kind
	f.ex.oblSeq[k]++
	return fmt.Sprintf("%s@%d", k, f.ex.oblSeq[k])
}

func (f *Frame) safety(ns *nodeState, kind string, goal Term, note string, pos token.Pos) {
	name := f.safetyName(kind)
	if f.ex.noSafety {
		return
	}
	f.ex.obl(&Obligation{Name: name, Kind: "safety", Hyp: ns.reach, Goal: goal, Note: note, Pos: f.pos(pos)})
}

// ---- blocks ----

func (f *Frame) execBlock(n *Node, ns nodeState, skipPhis bool) {
	ex := f.ex
	for _, ins := range n.blk.Instrs {
		if _, isPhi := ins.(*ssa.Phi); isPhi {
			continue
		}
		switch x := ins.(type) {
		case *ssa.If:
			c := f.operand(ns.env, x.Cond).T
			tb, fb := n.blk.Succs[0], n.blk.Succs[1]
			if c.B != nil {
				if *c.B {
					f.addEdge(n, tb, ns.reach, ns.env, ns.names, ns.st)
				} else {
					f.addEdge(n, fb, ns.reach, ns.env, ns.names, ns.st)
				}
				return
			}
			ct := ex.vc.Define(f.prefix+"br", And(ns.reach, c))
			cf := ex.vc.Define(f.prefix+"br", And(ns.reach, Not(c)))
			f.addEdge(n, tb, ct, ns.env, ns.names, ns.st)
			f.addEdge(n, fb, cf, copyEnv(ns.env), copyNames(ns.names), ns.st.clone())
			return
		case *ssa.Jump:
			f.addEdge(n, n.blk.Succs[0], ns.reach, ns.env, ns.names, ns.st)
			return
		case *ssa.Return:
			var rs []Val
			for _, r := range x.Results {
				rs = append(rs, f.operand(ns.env, r))
			}
			f.rets = append(f.rets, retEdge{reach: ns.reach, results: rs, st: ns.st, names: ns.names, pos: x.Pos()})
			return
		case *ssa.Panic:
			ex.panics = append(ex.panics, panicExit{reach: ns.reach, what: "explicit panic at " + f.pos(x.Pos())})
			return
		default:
			f.execInstr(&ns, ins)
			if ns.reach.B != nil && !*ns.reach.B {
				return
			}
		}
	}
}

func (f *Frame) bind(ns *nodeState, v ssa.Value, val Val) {
	shared := val.Shared
	defer func() {
		if shared {
			r := ns.env[v]
			r.Shared = true
			ns.env[v] = r
		}
	}()
	if !val.IsPtr && val.Fn == nil && val.Builtin == "" && len(val.Tup) == 0 && val.Iter == nil && val.T.Sort != nil {
		val.T = f.ex.vc.Define(f.prefix+v.Name(), val.T)
	}
	ns.env[v] = val
}

func (f *Frame) execInstr(ns *nodeState, ins ssa.Instruction) {
	ex := f.ex
	vc := ex.vc
	switch x := ins.(type) {
	case *ssa.DebugRef:
		if obj := x.Object(); obj != nil {
			if _, isVar := obj.(*types.Var); isVar {
				src := x.X
				if c, isConst := x.X.(*ssa.Const); isConst && !x.IsAddr {
					// x/tools v0.29 gives the DebugRef of `v := e` the value v had before (zero); the value of e is
					// found through the DebugRef that GlobalDebug emits for the expression e itself
					if os.Getenv("GVC_DEBUG") != "" {
						fmt.Fprintf(os.Stderr, "DebugRef def? %s const=%v rhs=%v\n", obj.Name(), c, f.defRHS(x.Expr) != nil)
					}
					if rhs := f.defRHS(x.Expr); rhs != nil {
						if v := f.exprValue(ins.Block(), rhs); v != nil {
							if _, have := ns.env[v]; have {
								src = v
							} else if _, isC := v.(*ssa.Const); isC {
								src = v
							}
							// otherwise the debug reference precedes the instructions that compute the value: the
							// definition is picked up at the first use or at the phi that carries the variable
						}
					}
					_ = c
				}
				val := f.operand(ns.env, src)
				if src != x.X {
					x2 := src
					if f.isTop {
						if vw, ok := ex.views[obj.Name()]; ok {
							f.viewEvent(ns, obj.Name(), vw, x2, val)
						}
					}
					ns.names[obj.Name()] = val
					break
				}
				if f.isTop && !x.IsAddr {
					if vw, ok := ex.views[obj.Name()]; ok {
						if os.Getenv("GVC_DEBUG") != "" {
							fmt.Fprintf(os.Stderr, "DebugRef %s X=%s (%T) at %s blk %d\n", obj.Name(), x.X.Name(), x.X, f.pos(x.Pos()), x.Block().Index)
						}
						f.viewEvent(ns, obj.Name(), vw, x.X, val)
					}
				}
				ns.names[obj.Name()] = val
			}
		}
	case *ssa.Alloc:
		et := x.Type().Underlying().(*types.Pointer).Elem()
		c := ex.newCell(f.prefix+x.Name()+"_"+sanitize(x.Comment), vc.SortOf(et), et)
		ns.st[c] = vc.zeroTerm(c.Sort)
		ns.env[x] = Val{IsPtr: true, P: &LV{Cell: c}}
	case *ssa.BinOp:
		a, b := f.operand(ns.env, x.X), f.operand(ns.env, x.Y)
		f.bind(ns, x, f.binop(ns, x, a, b))
	case *ssa.UnOp:
		f.unop(ns, x)
	case *ssa.Phi:
	case *ssa.Call:
		f.call(ns, x)
	case *ssa.ChangeType:
		v := f.operand(ns.env, x.X)
		if !v.IsPtr && v.T.Sort != nil {
			want := vc.SortOf(x.Type())
			if !sameSort(want, v.T.Sort) {
				ex.fail("ChangeType between different sorts %s -> %s", v.T.Sort, want)
			}
		}
		ns.env[x] = v
	case *ssa.Convert:
		f.bind(ns, x, f.convert(ns, x))
	case *ssa.ChangeInterface:
		ns.env[x] = f.operand(ns.env, x.X)
	case *ssa.MakeInterface:
		v := f.operand(ns.env, x.X)
		is := vc.IfaceSort()
		xt := x.X.Type()
		var payload Term
		if v.IsPtr {
			payload = IntLit64(0, SInt)
		} else {
			d := ex.viewOf(ns.st, v)
			fn := "ifbox_" + sanitize(sortTag(d.Sort))
			un := "ifunbox_" + sanitize(sortTag(d.Sort))
			vc.DeclareFun(fn, []*Sort{d.Sort}, SInt)
			vc.DeclareFun(un, []*Sort{SInt}, d.Sort)
			payload = App(SInt, fn, d)
			vc.Assume(Eq(App(d.Sort, un, payload), d), "interface boxing is injective")
		}
		f.bind(ns, x, Val{T: MkData(is, IntLit64(int64(vc.TypeID(xt)), SInt), payload)})
	case *ssa.TypeAssert:
		v := f.operand(ns.env, x.X).T
		is := vc.IfaceSort()
		if types.IsInterface(x.AssertedType) {
			ex.fail("type assertion to interface type %s", x.AssertedType)
		}
		tagOK := And(Not(Eq(v, Atom(is.Alt, is))), Eq(FieldOf(v, 0), IntLit64(int64(vc.TypeID(x.AssertedType)), SInt)))
		as := vc.SortOf(x.AssertedType)
		un := "ifunbox_" + sanitize(sortTag(as))
		vc.DeclareFun(un, []*Sort{SInt}, as)
		val := App(as, un, FieldOf(v, 1))
		if x.CommaOk {
			ns.env[x] = Val{Tup: []Val{{T: vc.Define(f.prefix+x.Name()+"_v", Ite(tagOK, val, vc.zeroTerm(as)))}, {T: vc.Define(f.prefix+x.Name()+"_ok", tagOK)}}}
		} else {
			f.safety(ns, "typeassert", tagOK, "type assertion", x.Pos())
			f.bind(ns, x, Val{T: val})
		}
	case *ssa.Extract:
		t := f.operand(ns.env, x.Tuple)
		if x.Index >= len(t.Tup) {
			ex.fail("extract %d of %d-tuple", x.Index, len(t.Tup))
		}
		ns.env[x] = t.Tup[x.Index]
	case *ssa.Field:
		v := f.operand(ns.env, x.X)
		f.bind(ns, x, Val{T: FieldOf(ex.viewOf(ns.st, v), x.Field)})
	case *ssa.FieldAddr:
		v := f.operand(ns.env, x.X)
		st := x.X.Type().Underlying().(*types.Pointer).Elem()
		lv := f.derefPtr(ns, v, st, "field "+st.Underlying().(*types.Struct).Field(x.Field).Name(), x.Pos())
		ns.env[x] = Val{IsPtr: true, P: lv.extend(PathElem{Kind: 'f', Field: x.Field})}
	case *ssa.Index:
		v := f.operand(ns.env, x.X)
		idx := f.operand(ns.env, x.Index).T
		at, ok := x.X.Type().Underlying().(*types.Array)
		if !ok {
			ex.fail("Index on %s", x.X.Type())
		}
		f.boundsCheck(ns, idx, IntLit64(at.Len(), idx.Sort), x.Pos())
		f.bind(ns, x, Val{T: ArrayGet(ex.viewOf(ns.st, v), idx)})
	case *ssa.IndexAddr:
		v := f.operand(ns.env, x.X)
		idx := f.operand(ns.env, x.Index).T
		switch u := x.X.Type().Underlying().(type) {
		case *types.Pointer: // pointer to array
			at := u.Elem().Underlying().(*types.Array)
			lv := f.derefPtr(ns, v, u.Elem(), "array", x.Pos())
			f.boundsCheck(ns, idx, IntLit64(at.Len(), idx.Sort), x.Pos())
			ns.env[x] = Val{IsPtr: true, P: lv.extend(PathElem{Kind: 'a', Idx: idx})}
		case *types.Slice:
			sv := ex.viewOf(ns.st, v)
			f.boundsCheck(ns, idx, slLen(sv), x.Pos())
			if v.Origin != nil {
				ns.env[x] = Val{IsPtr: true, P: v.Origin.extend(PathElem{Kind: 's', Idx: idx})}
			} else {
				// read-only view of a slice value
				c := ex.newCell("slview", sv.Sort, x.X.Type())
				c.ReadOnly = true
				ns.st[c] = sv
				ns.env[x] = Val{IsPtr: true, P: (&LV{Cell: c}).extend(PathElem{Kind: 's', Idx: idx})}
			}
		default:
			ex.fail("IndexAddr on %s", x.X.Type())
		}
	case *ssa.Lookup:
		v := f.operand(ns.env, x.X)
		mt, ok := x.X.Type().Underlying().(*types.Map)
		if !ok {
			ex.fail("Lookup on %s", x.X.Type())
		}
		k := ex.toData(ns.st, f.operand(ns.env, x.Index), mt.Key())
		m := ex.viewOf(ns.st, v)
		has := Select(FieldOf(m, 0), k)
		val := Ite(has, Select(FieldOf(m, 1), k), vc.zeroTerm(m.Sort.Elem))
		val = vc.Define(f.prefix+x.Name()+"_v", val)
		ex.assumeRange(val, mt.Elem(), ns.reach)
		vc.Assume(Implies(has, leT(IntLit64(1, SInt), FieldOf(m, 2))), "a key is present: map not empty")
		rv := Val{T: val}
		if v.Origin != nil && isRefType(mt.Elem()) {
			rv.Origin = v.Origin.extend(PathElem{Kind: 'm', Idx: k}).at(ex.seq)
		}
		if x.CommaOk {
			ns.env[x] = Val{Tup: []Val{rv, {T: vc.Define(f.prefix+x.Name()+"_ok", has)}}}
		} else {
			ns.env[x] = rv
		}
	case *ssa.MapUpdate:
		mv := f.operand(ns.env, x.Map)
		mt := x.Map.Type().Underlying().(*types.Map)
		if mv.Origin == nil {
			ex.fail("update of a map that is not held in a tracked location")
		}
		k := ex.toData(ns.st, f.operand(ns.env, x.Key), mt.Key())
		v := ex.toData(ns.st, f.operand(ns.env, x.Value), mt.Elem())
		m := ex.viewOf(ns.st, mv)
		f.safety(ns, "nilmap", Not(FieldOf(m, 3)), "assignment to entry in nil map", x.Pos())
		target := mv.Origin.extend(PathElem{Kind: 'm', Idx: k})
		if isRefType(mt.Elem()) {
			ex.noteReassign(target)
		}
		ex.storeLV(ns.st, target, v)
	case *ssa.MakeMap:
		mt := x.Type().Underlying().(*types.Map)
		s := vc.SortOf(mt)
		c := ex.newCell(f.prefix+x.Name()+"_map", s, mt)
		zero := vc.zeroTerm(s)
		ns.st[c] = WithField(zero, 3, TFalse)
		ns.env[x] = Val{T: ns.st[c], Origin: &LV{Cell: c}}
	case *ssa.MakeSlice:
		stp := x.Type().Underlying().(*types.Slice)
		s := vc.SortOf(stp)
		ln := f.operand(ns.env, x.Len).T
		f.safety(ns, "makeslice", leT(IntLit64(0, ln.Sort), ln), "makeslice: len out of range", x.Pos())
		c := ex.newCell(f.prefix+x.Name()+"_slice", s, stp)
		ns.st[c] = MkData(s, vc.zeroTerm(s.Fields[0].Sort), ln, TFalse)
		ns.env[x] = Val{T: ns.st[c], Origin: &LV{Cell: c}}
	case *ssa.Slice:
		f.sliceOp(ns, x)
	case *ssa.Store:
		addr := f.operand(ns.env, x.Addr)
		et := x.Addr.Type().Underlying().(*types.Pointer).Elem()
		lv := f.derefPtr(ns, addr, et, "store", x.Pos())
		v := f.operand(ns.env, x.Val)
		if isRefType(et) {
			ex.noteReassign(lv)
		}
		ex.storeLV(ns.st, lv, ex.toData(ns.st, v, et))
	case *ssa.Range:
		f.rangeInstr(ns, x)
	case *ssa.Next:
		f.nextInstr(ns, x)
	case *ssa.RunDefers:
		f.runDefers(ns)
	case *ssa.Defer:
		f.deferInstr(ns, x)
	case *ssa.MakeClosure:
		var free []Val
		for _, b := range x.Bindings {
			free = append(free, f.operand(ns.env, b))
		}
		ns.env[x] = Val{Fn: x.Fn.(*ssa.Function), Free: free}
	case *ssa.Go:
		f.goInstr(ns, x)
	case *ssa.Send:
		f.sendInstr(ns, x)
	case *ssa.MakeChan:
		f.makeChan(ns, x)
	default:
		ex.fail("instruction %T (%s) in %s", ins, ins, f.fn.Name())
	}
}

// defRHS: for the identifier on the left of `id := e` / `var id = e`, the expression e.
func (f *Frame) defRHS(id ast.Expr) ast.Expr {
	if f.defs == nil {
		f.defs = map[ast.Expr]ast.Expr{}
		if syn := f.fn.Syntax(); syn != nil {
			ast.Inspect(syn, func(n ast.Node) bool {
				switch s := n.(type) {
				case *ast.AssignStmt:
					if s.Tok == token.DEFINE && len(s.Lhs) == len(s.Rhs) {
						for i := range s.Lhs {
							f.defs[s.Lhs[i]] = s.Rhs[i]
						}
					}
				case *ast.ValueSpec:
					if len(s.Names) == len(s.Values) {
						for i := range s.Names {
							f.defs[s.Names[i]] = s.Values[i]
						}
					}
				}
				return true
			})
		}
	}
	return f.defs[id]
}

// exprValue: the SSA value recorded (by a DebugRef) for an expression node, searched in the block.
func (f *Frame) exprValue(b *ssa.BasicBlock, e ast.Expr) ssa.Value {
	for {
		if p, ok := e.(*ast.ParenExpr); ok {
			e = p.X
			continue
		}
		break
	}
	for _, ins := range b.Instrs {
		if d, ok := ins.(*ssa.DebugRef); ok && d.Expr == e && !d.IsAddr {
			return d.X
		}
	}
	return nil
}

// viewEvent maintains the ghost set/pos arrays of a viewed slice variable at a DebugRef (definition or use).
func (f *Frame) viewEvent(ns *nodeState, name string, vw *viewCells, v ssa.Value, val Val) {
	ex := f.ex
	prev := ns.names[srcKey(name)].Src
	defer func() { ns.names[srcKey(name)] = Val{Src: v} }()
	if os.Getenv("GVC_DEBUG") != "" {
		pn := "<nil>"
		if prev != nil {
			pn = prev.Name()
		}
		fmt.Fprintf(os.Stderr, "viewEvent %s: v=%s (%T) prev=%s dry=%d blk=%v\n", name, v.Name(), v, pn, ex.dry, ns.reach.S)
	}
	if prev == v {
		return // a use
	}
	if c, isConst := v.(*ssa.Const); isConst && c.Value == nil {
		// x/tools v0.29 attaches the zero value to the DebugRef of a `:=` declaration (the value before the
		// store); the definition is picked up at the first use or at the phi that carries the variable
		v = prev
		return
	}
	if phi, ok := v.(*ssa.Phi); ok && phi.Comment == name {
		return // bound by a phi: the ghost cells were merged / havocked with the state
	}
	keyOf := func(elem Term) Term {
		k, ok := FieldByGoName(elem, vw.key)
		if !ok {
			ex.fail("ghost view %s: elements have no field %s", name, vw.key)
		}
		return k
	}
	addElems := func(set, pos Term, s Term, from Term, n int, base Term) (Term, Term) {
		for i := 0; i < n; i++ {
			el := Select(slArr(s), addT(from, IntLit64(int64(i), SInt)))
			k := keyOf(el)
			set = Store(set, k, TTrue)
			pos = Store(pos, k, addT(base, IntLit64(int64(i), SInt)))
		}
		return set, pos
	}
	// append to the variable itself
	if call, ok := v.(*ssa.Call); ok {
		if b, isB := call.Call.Value.(*ssa.Builtin); isB && b.Name() == "append" && len(call.Call.Args) == 2 && (call.Call.Args[0] == prev) {
			old := ex.viewOf(ns.st, f.operand(ns.env, call.Call.Args[0]))
			add := ex.viewOf(ns.st, f.operand(ns.env, call.Call.Args[1]))
			n := slLen(add)
			if n.K == nil || n.K.Int64() > 8 {
				ex.fail("ghost view %s: append of a non-constant number of elements", name)
			}
			set, pos := addElems(ns.st[vw.set], ns.st[vw.pos], add, IntLit64(0, SInt), int(n.K.Int64()), slLen(old))
			ns.st[vw.set] = ex.vc.Define("gset_"+name, set)
			ns.st[vw.pos] = ex.vc.Define("gpos_"+name, pos)
			ex.markWritten(vw.set, -1)
			ex.markWritten(vw.pos, -1)
			return
		}
	}
	// assignment from another viewed variable
	for other, ow := range ex.views {
		if other != name && ns.names[srcKey(other)].Src == v {
			ns.st[vw.set] = ns.st[ow.set]
			ns.st[vw.pos] = ns.st[ow.pos]
			ex.markWritten(vw.set, -1)
			ex.markWritten(vw.pos, -1)
			return
		}
	}
	// a fresh definition: must have a small constant length
	cur := ex.viewOf(ns.st, val)
	n := slLen(cur)
	if n.K == nil || n.K.Int64() > 8 {
		ex.fail("ghost view %s: defined from a slice of non-constant length", name)
	}
	set := ex.vc.zeroTerm(vw.set.Sort)
	pos := ns.st[vw.pos]
	set, pos = addElems(set, pos, cur, IntLit64(0, SInt), int(n.K.Int64()), IntLit64(0, SInt))
	ns.st[vw.set] = ex.vc.Define("gset_"+name, set)
	ns.st[vw.pos] = ex.vc.Define("gpos_"+name, pos)
	ex.markWritten(vw.set, -1)
	ex.markWritten(vw.pos, -1)
}

// syncViewsForPhis: before the phis of blk are bound along the edge from pred pi, make the ghost cells of every
// viewed variable carried by such a phi describe the incoming value.
func (f *Frame) syncViewsForPhis(ns *nodeState, blk *ssa.BasicBlock, pi int) {
	if !f.isTop || len(f.ex.views) == 0 {
		return
	}
	for _, ins := range blk.Instrs {
		phi, ok := ins.(*ssa.Phi)
		if !ok {
			break
		}
		vw, isView := f.ex.views[phi.Comment]
		if !isView {
			continue
		}
		in := phi.Edges[pi]
		if ns.names[srcKey(phi.Comment)].Src == in {
			continue
		}
		if _, isConst := in.(*ssa.Const); isConst {
			continue
		}
		f.viewEvent(ns, phi.Comment, vw, in, f.operand(ns.env, in))
	}
}

// revalidate: after a whole-map/slice re-assignment inside cell c, views created in this very block through
// the same cell remain valid only if they were created from the new epoch. (Conservative: nothing to do;
// stale views are detected at use.)
func (f *Frame) revalidate(ns *nodeState, c *Cell) {}

func isRefType(t types.Type) bool {
	switch t.Underlying().(type) {
	case *types.Map, *types.Slice:
		return true
	}
	return false
}

func (f *Frame) boundsCheck(ns *nodeState, idx, n Term, pos token.Pos) {
	if idx.Sort.Kind == KBV {
		f.safety(ns, "index", App(SBool, "bvult", idx, n), "index out of range", pos)
		return
	}
	inRange := And(leT(IntLit64(0, idx.Sort), idx), ltT(idx, n))
	if f.fc != nil && f.fc.IndexPanics && f.isTop {
		// `indexpanics`: the run-time panic of an index out of range is an exit of the function like an explicit panic; the
		// `panics` clause has to characterise it (only-when / whenever obligations)
		ex := f.ex
		ex.panics = append(ex.panics, panicExit{reach: And(ns.reach, Not(inRange)), what: "index out of range (" + f.pos(pos) + ")"})
		ns.reach = ex.vc.Define(f.safetyName("index")+"_R", And(ns.reach, inRange))
		return
	}
	f.safety(ns, "index", inRange, "index out of range", pos)
}

func (f *Frame) sliceOp(ns *nodeState, x *ssa.Slice) {
	ex := f.ex
	vc := ex.vc
	v := f.operand(ns.env, x.X)
	var lo, hi Term
	if x.Low != nil {
		lo = f.operand(ns.env, x.Low).T
	}
	if x.High != nil {
		hi = f.operand(ns.env, x.High).T
	}
	if x.Max != nil {
		ex.fail("3-index slice")
	}
	switch u := x.X.Type().Underlying().(type) {
	case *types.Slice:
		s := ex.viewOf(ns.st, v)
		ln := slLen(s)
		if lo.Nil() {
			lo = IntLit64(0, SInt)
		}
		if hi.Nil() {
			hi = ln
		}
		f.safety(ns, "slice", And(leT(IntLit64(0, SInt), lo), leT(lo, hi), leT(hi, ln)), "slice bounds out of range (checked against len, not cap)", x.Pos())
		var r Term
		if lo.K != nil && lo.K.Sign() == 0 {
			r = MkData(s.Sort, slArr(s), hi, slNil(s))
		} else {
			// shifted contents: fresh array with a target-index axiom
			na := vc.Declare(f.prefix+x.Name()+"_arr", slArr(s).Sort)
			j := Atom("q_j", SInt)
			ax := Implies(And(leT(IntLit64(0, SInt), j), ltT(j, subT(hi, lo))), Eq(Select(na, j), Select(slArr(s), addT(lo, j))))
			vc.Assume(Term{S: fmt.Sprintf("(forall ((q_j Int)) %s)", ax.S), Sort: SBool}, "re-slicing: contents of the result")
			r = MkData(s.Sort, na, subT(hi, lo), slNil(s))
		}
		// alias discipline: the result shares its backing array with the operand; appending to it (or storing
		// through it) could overwrite elements that other live slices still see, which the value semantics of
		// slices used here would not notice. Such writes are rejected (see call.go append).
		f.bind(ns, x, Val{T: r, Shared: true})
	case *types.Pointer:
		at := u.Elem().Underlying().(*types.Array)
		lv := f.derefPtr(ns, v, u.Elem(), "slice of array", x.Pos())
		arr := ex.loadLV(ns.st, lv)
		n := at.Len()
		if lo.Nil() {
			lo = IntLit64(0, SInt)
		}
		if hi.Nil() {
			hi = IntLit64(n, SInt)
		}
		if n > 16 {
			ex.fail("slice of a large array")
		}
		ss := vc.SliceSortOf(arr.Sort.Elem)
		a := vc.zeroTerm(ss.Fields[0].Sort)
		for i := int64(0); i < n; i++ {
			a = Store(a, IntLit64(i, SInt), FieldOf(arr, int(i)))
		}
		f.safety(ns, "slice", And(leT(IntLit64(0, SInt), lo), leT(lo, hi), leT(hi, IntLit64(n, SInt))), "slice bounds out of range", x.Pos())
		if lo.K == nil || lo.K.Sign() != 0 {
			ex.fail("slice of an array from a non-zero index")
		}
		f.bind(ns, x, Val{T: MkData(ss, a, hi, TFalse)})
	default:
		ex.fail("slice of %s", x.X.Type())
	}
}

func (f *Frame) unop(ns *nodeState, x *ssa.UnOp) {
	ex := f.ex
	v := f.operand(ns.env, x.X)
	switch x.Op {
	case token.MUL: // load
		et := x.X.Type().Underlying().(*types.Pointer).Elem()
		lv := f.derefPtr(ns, v, et, "load", x.Pos())
		t := ex.loadLV(ns.st, lv)
		if _, isPtr := et.Underlying().(*types.Pointer); isPtr {
			// a pointer held in memory is a boxed value
			f.bind(ns, x, Val{T: t})
			return
		}
		rv := Val{T: ex.vc.Define(f.prefix+x.Name(), t)}
		if isRefType(et) && !lv.Cell.ReadOnly {
			rv.Origin = &LV{Cell: lv.Cell, Path: lv.Path, Epoch: ex.seq}
		}
		if len(lv.Path) > 0 {
			last := lv.Path[len(lv.Path)-1]
			if last.Kind == 's' || last.Kind == 'm' {
				ex.assumeRange(rv.T, et, ns.reach)
			}
		}
		ns.env[x] = rv
	case token.NOT:
		f.bind(ns, x, Val{T: Not(v.T)})
	case token.SUB:
		t := v.T
		switch t.Sort.Kind {
		case KBV:
			f.bind(ns, x, Val{T: bvFold1("bvneg", t)})
		default:
			var r Term
			if t.K != nil {
				r = IntLit(new(big.Int).Neg(t.K), t.Sort)
			} else {
				r = App(t.Sort, "-", t)
			}
			f.overflowCheck(ns, r, x.Type(), "negation", x.Pos())
			f.bind(ns, x, Val{T: r})
		}
	case token.XOR:
		t := v.T
		b := x.Type().Underlying().(*types.Basic)
		switch t.Sort.Kind {
		case KBV:
			f.bind(ns, x, Val{T: bvFold1("bvnot", t)})
		default:
			if isUnsigned(b) {
				_, hi := intRange(b)
				f.bind(ns, x, Val{T: subT(IntLit(hi, t.Sort), t)})
			} else {
				f.bind(ns, x, Val{T: subT(App(t.Sort, "-", t), IntLit64(1, t.Sort))})
			}
		}
	case token.ARROW:
		f.recvInstr(ns, x)
	default:
		ex.fail("unary %s", x.Op)
	}
}

func (f *Frame) overflowCheck(ns *nodeState, r Term, t types.Type, what string, pos token.Pos) {
	ex := f.ex
	if !ex.overflow || r.Sort.Kind == KBV {
		return
	}
	b, ok := t.Underlying().(*types.Basic)
	if !ok || b.Info()&types.IsInteger == 0 {
		return
	}
	lo, hi := intRange(b)
	if r.K != nil {
		if r.K.Cmp(lo) >= 0 && r.K.Cmp(hi) <= 0 {
			return
		}
	}
	name := f.safetyName("overflow")
	if ex.noSafety {
		return
	}
	ex.obl(&Obligation{Name: name, Kind: "overflow", Hyp: ns.reach, Goal: And(leT(IntLit(lo, r.Sort), r), leT(r, IntLit(hi, r.Sort))),
		Note: "machine integer " + what + " stays within " + b.Name(), Pos: f.pos(pos), NoReplay: true})
}

func (f *Frame) convert(ns *nodeState, x *ssa.Convert) Val {
	ex := f.ex
	vc := ex.vc
	v := f.operand(ns.env, x.X)
	from, to := x.X.Type().Underlying(), x.Type().Underlying()
	fb, fok := from.(*types.Basic)
	tb, tok := to.(*types.Basic)
	if !fok || !tok {
		// e.g. []byte <-> string, named conversions
		if vc.SortOf(x.X.Type()) == vc.SortOf(x.Type()) {
			return v
		}
		ex.fail("conversion %s -> %s", x.X.Type(), x.Type())
	}
	t := v.T
	fi, ti := fb.Info()&types.IsInteger != 0, tb.Info()&types.IsInteger != 0
	ff, tf := fb.Info()&types.IsFloat != 0, tb.Info()&types.IsFloat != 0
	switch {
	case fi && ti:
		ts := vc.SortOf(x.Type())
		if t.Sort.Kind == KBV {
			fw, tw := intWidth(fb), intWidth(tb)
			switch {
			case tw == fw:
				return Val{T: Term{S: t.S, Sort: ts, K: t.K}}
			case tw < fw:
				r := App(ts, fmt.Sprintf("(_ extract %d 0)", tw-1), t)
				if t.K != nil {
					r = IntLit(t.K, ts)
				}
				return Val{T: r}
			default:
				op := "zero_extend"
				if !isUnsigned(fb) {
					op = "sign_extend"
				}
				r := App(ts, fmt.Sprintf("(_ %s %d)", op, tw-fw), t)
				if t.K != nil {
					k := new(big.Int).Set(t.K)
					if !isUnsigned(fb) && k.Bit(fw-1) == 1 {
						k.Sub(k, new(big.Int).Lsh(big.NewInt(1), uint(fw)))
					}
					r = IntLit(k, ts)
				}
				return Val{T: r}
			}
		}
		// mathematical integers: the value must fit (Go would wrap; a wrap is reported)
		r := t
		if !sameSort(t.Sort, ts) {
			if ts.Kind == KReal {
				r = toReal(t)
			} else {
				r = toInt(t)
			}
		}
		lo, hi := intRange(tb)
		flo, fhi := intRange(fb)
		if flo.Cmp(lo) < 0 || fhi.Cmp(hi) > 0 {
			f.overflowCheck(ns, r, x.Type(), fmt.Sprintf("conversion %s->%s", fb.Name(), tb.Name()), x.Pos())
		}
		return Val{T: r}
	case fi && tf:
		vc.assumeNote("int -> float64 conversion treated as exact")
		if t.Sort.Kind == KBV {
			ex.fail("int->float in bv mode")
		}
		return Val{T: toReal(t)}
	case ff && ti:
		// truncation toward zero
		ts := vc.SortOf(x.Type())
		tr := Ite(leT(IntLit64(0, SReal), t), App(SInt, "to_int", t), App(SInt, "-", App(SInt, "to_int", App(SReal, "-", t))))
		if t.K != nil {
			tr = IntLit(t.K, SInt)
		}
		lo, hi := intRange(tb)
		inRange := And(leT(IntLit(lo, SInt), tr), leT(tr, IntLit(hi, SInt)))
		if inRange.B == nil || !*inRange.B {
			// Go: "if the value cannot be represented by the type the result is implementation-dependent" (no panic)
			arb := vc.Declare(f.prefix+x.Name()+"_f2i", SInt)
			vc.Assume(And(leT(IntLit(lo, SInt), arb), leT(arb, IntLit(hi, SInt))), "float->int conversion out of range: arbitrary value of the type")
			tr = Ite(inRange, tr, arb)
		}
		r := tr
		if ts.Kind == KReal {
			r = toReal(tr)
		}
		return Val{T: r}
	case ff && tf:
		return v
	}
	ex.fail("conversion %s -> %s", x.X.Type(), x.Type())
	return Val{}
}

func toReal(t Term) Term {
	if t.Sort.Kind == KReal {
		return t
	}
	if t.K != nil {
		return IntLit(t.K, SReal)
	}
	return App(SReal, "to_real", t)
}

func toInt(t Term) Term {
	if t.Sort.Kind == KInt {
		return t
	}
	if t.K != nil {
		return IntLit(t.K, SInt)
	}
	return App(SInt, "to_int", t)
}

func bvFold1(op string, t Term) Term {
	if t.K != nil {
		w := uint(t.Sort.Width)
		m := new(big.Int).Lsh(big.NewInt(1), w)
		switch op {
		case "bvneg":
			return IntLit(new(big.Int).Sub(m, t.K), t.Sort)
		case "bvnot":
			return IntLit(new(big.Int).Sub(new(big.Int).Sub(m, big.NewInt(1)), t.K), t.Sort)
		}
	}
	return App(t.Sort, op, t)
}

func signedVal(k *big.Int, w int) *big.Int {
	if k.Bit(w-1) == 1 {
		return new(big.Int).Sub(k, new(big.Int).Lsh(big.NewInt(1), uint(w)))
	}
	return k
}

func (f *Frame) binop(ns *nodeState, x *ssa.BinOp, av, bv Val) Val {
	ex := f.ex
	_ = ex.vc
	xt := x.X.Type()
	// pointer / nil comparisons
	if av.IsPtr || bv.IsPtr {
		if x.Op != token.EQL && x.Op != token.NEQ {
			ex.fail("pointer arithmetic")
		}
		eq := f.ptrEq(ns, av, bv, xt)
		if x.Op == token.NEQ {
			eq = Not(eq)
		}
		return Val{T: eq}
	}
	a, b := ex.viewOf(ns.st, av), ex.viewOf(ns.st, bv)
	// comparisons with nil for maps / slices
	if isRefType(xt) && (x.Op == token.EQL || x.Op == token.NEQ) {
		// one side is the nil constant (zero term): compare the nil flag
		var s Term
		if isNilConst(x.Y) {
			s = a
		} else if isNilConst(x.X) {
			s = b
		} else {
			ex.fail("comparison of maps/slices")
		}
		r := nilOf(s)
		if x.Op == token.NEQ {
			r = Not(r)
		}
		return Val{T: r}
	}
	basic, _ := xt.Underlying().(*types.Basic)
	isInt := basic != nil && basic.Info()&types.IsInteger != 0
	unsigned := basic != nil && isUnsigned(basic)
	switch x.Op {
	case token.EQL:
		return Val{T: Eq(a, b)}
	case token.NEQ:
		return Val{T: Not(Eq(a, b))}
	}
	if a.Sort.Kind == KBool {
		ex.fail("boolean binop %s", x.Op)
	}
	if a.Sort.Kind == KBV {
		return Val{T: f.bvBinop(ns, x, a, b, unsigned)}
	}
	// Int / Real
	switch x.Op {
	case token.LSS:
		return Val{T: ltT(a, b)}
	case token.LEQ:
		return Val{T: leT(a, b)}
	case token.GTR:
		return Val{T: ltT(b, a)}
	case token.GEQ:
		return Val{T: leT(b, a)}
	case token.ADD:
		if a.Sort.Kind == KString {
			return Val{T: App(SStr, "str.++", a, b)}
		}
		r := addT(a, b)
		f.overflowCheck(ns, r, x.Type(), "addition", x.Pos())
		return Val{T: r}
	case token.SUB:
		r := subT(a, b)
		f.overflowCheck(ns, r, x.Type(), "subtraction", x.Pos())
		return Val{T: r}
	case token.MUL:
		r := ex.vc.mulT(a, b)
		f.overflowCheck(ns, r, x.Type(), "multiplication", x.Pos())
		return Val{T: r}
	case token.QUO:
		if a.Sort.Kind == KReal && !isInt {
			f.safety(ns, "fdiv", Not(Eq(b, IntLit64(0, SReal))), "float division by zero yields Inf/NaN (treated as an error)", x.Pos())
			return Val{T: App(SReal, "/", a, b)}
		}
		if a.Sort.Kind == KReal {
			ex.fail("integer division in real mode")
		}
		f.safety(ns, "divzero", Not(Eq(b, IntLit64(0, SInt))), "integer divide by zero", x.Pos())
		if a.K != nil && b.K != nil && b.K.Sign() != 0 {
			return Val{T: IntLit(new(big.Int).Quo(a.K, b.K), a.Sort)}
		}
		ex.needPrelude("arith")
		r := App(SInt, "tdiv", a, b)
		if !unsigned {
			f.overflowCheck(ns, r, x.Type(), "division", x.Pos())
		}
		return Val{T: r}
	case token.REM:
		if a.Sort.Kind == KReal {
			ex.fail("remainder in real mode")
		}
		f.safety(ns, "divzero", Not(Eq(b, IntLit64(0, SInt))), "integer divide by zero", x.Pos())
		if a.K != nil && b.K != nil && b.K.Sign() != 0 {
			return Val{T: IntLit(new(big.Int).Rem(a.K, b.K), a.Sort)}
		}
		ex.needPrelude("arith")
		return Val{T: App(SInt, "tmod", a, b)}
	case token.SHL, token.SHR:
		if a.Sort.Kind != KInt || b.Sort.Kind != KInt {
			ex.fail("shift in real mode")
		}
		if yb, ok := x.Y.Type().Underlying().(*types.Basic); ok && !isUnsigned(yb) {
			f.safety(ns, "shift", leT(IntLit64(0, SInt), b), "negative shift amount", x.Pos())
		}
		var p Term
		if b.K != nil && b.K.IsInt64() && b.K.Int64() >= 0 && b.K.Int64() < 200 {
			p = IntLit(new(big.Int).Lsh(big.NewInt(1), uint(b.K.Int64())), SInt)
		} else {
			ex.needPrelude("arith")
			p = App(SInt, "pow2", b)
			f.pow2Facts(ns, b)
		}
		if x.Op == token.SHL {
			var r Term
			if a.K != nil && p.K != nil {
				r = IntLit(new(big.Int).Mul(a.K, p.K), SInt)
			} else if a.K != nil && a.K.Cmp(big.NewInt(1)) == 0 {
				r = p
			} else {
				r = App(SInt, "*", a, p)
			}
			f.overflowCheck(ns, r, x.Type(), "left shift (a wrap-around is reported)", x.Pos())
			if p.K == nil {
				f.safety(ns, "shift", ltT(b, IntLit64(64, SInt)), "shift amount below the width", x.Pos())
			}
			return Val{T: r}
		}
		if a.K != nil && p.K != nil {
			q, m := new(big.Int).DivMod(a.K, p.K, new(big.Int))
			_ = m
			return Val{T: IntLit(q, SInt)}
		}
		if p.K == nil {
			f.safety(ns, "shift", ltT(b, IntLit64(64, SInt)), "shift amount below the width", x.Pos())
		}
		return Val{T: App(SInt, "div", a, p)}
	case token.AND, token.OR, token.XOR, token.AND_NOT:
		if a.Sort.Kind != KInt {
			ex.fail("bit operation in real mode")
		}
		return Val{T: f.intBitop(ns, x, a, b)}
	}
	ex.fail("binop %s", x.Op)
	return Val{}
}

// pow2Facts: instance of lemma mathhelp.pow2_pos for a shift amount.
func (f *Frame) pow2Facts(ns *nodeState, n Term) {
	ex := f.ex
	lm := ex.P.findLemma("mathhelp", "pow2_pos")
	if lm == nil {
		ex.fail("lemma mathhelp.pow2_pos (facts about 1 << n) not found in the contract files")
	}
	sc := &Scope{ex: ex, names: map[string]Val{}, st: ns.st, bound: map[string]Term{"n": n}}
	inst := sc.lemmaInstance(&SExpr{Op: "call", Name: "pow2_pos", Args: []*SExpr{{Op: "id", Name: "n"}}}, lm)
	ex.vc.Assume(inst, "lemma instance pow2_pos")
}

func isNilConst(v ssa.Value) bool {
	c, ok := v.(*ssa.Const)
	return ok && c.Value == nil
}

func (f *Frame) ptrEq(ns *nodeState, a, b Val, t types.Type) Term {
	ex := f.ex
	isNil := func(v Val) (Term, bool) {
		if v.IsPtr {
			if v.P != nil && v.NilIf.Sort != nil {
				return v.NilIf, true
			}
			return BoolT(v.P == nil), true
		}
		if v.T.Sort != nil && (v.T.Sort.Role == "ptr" || v.T.Sort.Role == "iface") {
			return Eq(v.T, Atom(v.T.Sort.Alt, v.T.Sort)), true
		}
		return Term{}, false
	}
	an, aok := isNil(a)
	bn, bok := isNil(b)
	if aok && bok {
		// comparison is only meaningful if one side is statically nil
		if a.IsPtr && a.P == nil {
			return bn
		}
		if b.IsPtr && b.P == nil {
			return an
		}
		if a.IsPtr && b.IsPtr && sameLV(a.P, b.P) {
			return TTrue
		}
	}
	ex.fail("pointer identity comparison")
	return Term{}
}

// intBitop: bit operations on mathematical integers by bit decomposition over `bits` bits,
// with the obligation that both operands are within [0, 2^bits).
func (f *Frame) intBitop(ns *nodeState, x *ssa.BinOp, a, b Term) Term {
	ex := f.ex
	k := ex.bits
	if a.K != nil && b.K != nil {
		r := new(big.Int)
		switch x.Op {
		case token.AND:
			r.And(a.K, b.K)
		case token.OR:
			r.Or(a.K, b.K)
		case token.XOR:
			r.Xor(a.K, b.K)
		case token.AND_NOT:
			r.AndNot(a.K, b.K)
		}
		if a.K.Sign() >= 0 && b.K.Sign() >= 0 {
			return IntLit(r, SInt)
		}
	}
	lim := IntLit(new(big.Int).Lsh(big.NewInt(1), uint(k)), SInt)
	zero := IntLit64(0, SInt)
	for _, o := range []Term{a, b} {
		if o.K != nil && o.K.Sign() >= 0 && o.K.Cmp(lim.K) < 0 {
			continue
		}
		f.safety(ns, "bitrange", And(leT(zero, o), ltT(o, lim)), fmt.Sprintf("operand of a bit operation within [0, 2^%d) (limit of the integer encoding, not of Go)", k), x.Pos())
	}
	bit := func(t Term, i int) Term {
		if t.K != nil {
			return BoolT(t.K.Bit(i) == 1)
		}
		d := t
		if i > 0 {
			d = App(SInt, "div", t, IntLit(new(big.Int).Lsh(big.NewInt(1), uint(i)), SInt))
		}
		return Eq(App(SInt, "mod", d, IntLit64(2, SInt)), IntLit64(1, SInt))
	}
	var sum []Term
	for i := 0; i < k; i++ {
		ba, bb := bit(a, i), bit(b, i)
		var r Term
		switch x.Op {
		case token.AND:
			r = And(ba, bb)
		case token.OR:
			r = Or(ba, bb)
		case token.XOR:
			r = Not(Eq(ba, bb))
			if ba.B != nil && bb.B != nil {
				r = BoolT(*ba.B != *bb.B)
			} else if bb.B != nil {
				if *bb.B {
					r = Not(ba)
				} else {
					r = ba
				}
			} else if ba.B != nil {
				if *ba.B {
					r = Not(bb)
				} else {
					r = bb
				}
			}
		case token.AND_NOT:
			r = And(ba, Not(bb))
		}
		if r.B != nil && !*r.B {
			continue
		}
		w := IntLit(new(big.Int).Lsh(big.NewInt(1), uint(i)), SInt)
		sum = append(sum, Ite(r, w, zero))
	}
	if len(sum) == 0 {
		return zero
	}
	if len(sum) == 1 {
		return sum[0]
	}
	return App(SInt, "+", sum...)
}

func (f *Frame) bvBinop(ns *nodeState, x *ssa.BinOp, a, b Term, unsigned bool) Term {
	ex := f.ex
	w := a.Sort.Width
	cmp := func(us, s string) Term {
		if a.K != nil && b.K != nil {
			x1, y1 := a.K, b.K
			if !unsigned {
				x1, y1 = signedVal(a.K, w), signedVal(b.K, w)
			}
			c := x1.Cmp(y1)
			switch us {
			case "bvult":
				return BoolT(c < 0)
			case "bvule":
				return BoolT(c <= 0)
			case "bvugt":
				return BoolT(c > 0)
			default:
				return BoolT(c >= 0)
			}
		}
		if unsigned {
			return App(SBool, us, a, b)
		}
		return App(SBool, s, a, b)
	}
	arith := func(op string, fn func(x, y *big.Int) *big.Int) Term {
		if a.K != nil && b.K != nil {
			return IntLit(fn(a.K, b.K), a.Sort)
		}
		return App(a.Sort, op, a, b)
	}
	switch x.Op {
	case token.LSS:
		return cmp("bvult", "bvslt")
	case token.LEQ:
		return cmp("bvule", "bvsle")
	case token.GTR:
		return cmp("bvugt", "bvsgt")
	case token.GEQ:
		return cmp("bvuge", "bvsge")
	case token.ADD:
		return arith("bvadd", func(x, y *big.Int) *big.Int { return new(big.Int).Add(x, y) })
	case token.SUB:
		return arith("bvsub", func(x, y *big.Int) *big.Int { return new(big.Int).Sub(x, y) })
	case token.MUL:
		return arith("bvmul", func(x, y *big.Int) *big.Int { return new(big.Int).Mul(x, y) })
	case token.AND:
		return arith("bvand", func(x, y *big.Int) *big.Int { return new(big.Int).And(x, y) })
	case token.OR:
		return arith("bvor", func(x, y *big.Int) *big.Int { return new(big.Int).Or(x, y) })
	case token.XOR:
		return arith("bvxor", func(x, y *big.Int) *big.Int { return new(big.Int).Xor(x, y) })
	case token.AND_NOT:
		return App(a.Sort, "bvand", a, bvFold1("bvnot", b))
	case token.QUO, token.REM:
		f.safety(ns, "divzero", Not(Eq(b, IntLit64(0, b.Sort))), "integer divide by zero", x.Pos())
		op := map[token.Token][2]string{token.QUO: {"bvudiv", "bvsdiv"}, token.REM: {"bvurem", "bvsrem"}}[x.Op]
		if unsigned {
			return App(a.Sort, op[0], a, b)
		}
		return App(a.Sort, op[1], a, b)
	case token.SHL, token.SHR:
		// shift count: adapt width
		cnt := b
		yb, _ := x.Y.Type().Underlying().(*types.Basic)
		if yb != nil && !isUnsigned(yb) {
			f.safety(ns, "shift", App(SBool, "bvsge", b, IntLit64(0, b.Sort)), "negative shift amount", x.Pos())
		}
		if b.Sort.Width != w {
			if b.Sort.Width < w {
				cnt = App(a.Sort, fmt.Sprintf("(_ zero_extend %d)", w-b.Sort.Width), b)
				if b.K != nil {
					cnt = IntLit(b.K, a.Sort)
				}
			} else {
				// wider count: saturate
				big_ := App(SBool, "bvuge", b, IntLit64(int64(w), b.Sort))
				low := App(a.Sort, fmt.Sprintf("(_ extract %d 0)", w-1), b)
				cnt = Ite(big_, IntLit64(int64(w), a.Sort), low)
				if b.K != nil {
					if b.K.Cmp(big.NewInt(int64(w))) >= 0 {
						cnt = IntLit64(int64(w), a.Sort)
					} else {
						cnt = IntLit(b.K, a.Sort)
					}
				}
			}
		}
		if a.K != nil && cnt.K != nil {
			n := uint(cnt.K.Uint64())
			if cnt.K.Cmp(big.NewInt(int64(w))) >= 0 {
				n = uint(w)
			}
			if x.Op == token.SHL {
				return IntLit(new(big.Int).Lsh(a.K, n), a.Sort)
			}
			if unsigned {
				return IntLit(new(big.Int).Rsh(a.K, n), a.Sort)
			}
			return IntLit(new(big.Int).Rsh(signedVal(a.K, w), n), a.Sort)
		}
		if x.Op == token.SHL {
			return App(a.Sort, "bvshl", a, cnt)
		}
		if unsigned {
			return App(a.Sort, "bvlshr", a, cnt)
		}
		return App(a.Sort, "bvashr", a, cnt)
	}
	ex.fail("bv binop %s", x.Op)
	return Term{}
}
