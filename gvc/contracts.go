package main

// Contract files: comment-only Go files (`//go:build verif`, `contracts_verif.go`) inside the
// packages of /repo. Every `//@` line belongs to the contract language.

import (
	"fmt"
	"os"
	"path/filepath"
	"regexp"
	"strings"
)

type Clause struct {
	Kind  string   // requires, ensures, panics, modifies, invariant, decreases, unroll, witness, let, ...
	Props []string // property tags
	Text  string
	Expr  *SExpr
	Name  string // for let / witness / ghost: the name bound
	Using []*SExpr // lemma instances assumed for this clause only (`... using lemma(args); lemma(args)`)
	File  string
	Line  int
}

// GhostView: for a local slice variable, ghost arrays set_<name> (key -> member?) and pos_<name> (key -> index),
// maintained by the executor at every definition of / append to the variable. Ghost state never flows into
// program state: it is only readable from contract expressions.
type GhostView struct {
	Name string
	Key  string // field of the element that serves as key
}

type LoopSpec struct {
	Key        string // induction variable name (optionally name#k for the k-th loop with that variable), or "#<ordinal>"
	Alias      string // `as <name>`: binds the loop's range index (or first induction phi) under this name
	Unroll     int    // >0: unroll completely with this bound
	Invariants []*Clause
	Decreases  *Clause
	Havoc      bool // the loop body is not verified at all: everything it assigns becomes arbitrary
	Modifies   []*Clause
	Lets       []*Clause
	Uses       []*Clause // lemma instances assumed at the loop head (may mention the loop variables)
	Isolated   bool      // back-edge obligations see only what is assumed from the loop head on (invariants must be self-contained)
	Asserts    []*Clause // proved at every back edge (in order), then available to the invariant-preservation obligations
}

type CallSpec struct {
	Callee  string
	Ordinal int
	Lemmas  []*Clause // `use` clauses instantiated just after this call
}

type FuncContract struct {
	Pkg      string // package path suffix e.g. "pointindex"
	Name     string // "ToZ" or "(*PointIndex).InsertPoint"
	Mode     string
	Preludes []string
	Requires []*Clause
	Ensures  []*Clause
	AssumedEnsures []*Clause // postconditions that callers may assume although this run does not prove them (listed in the evidence)
	Panics   []*Clause // function panics exactly when (disjunction)
	IndexPanics bool   // an index out of range is a panic exit of this function (characterised by its `panics` clause) instead of a safety obligation
	OpaqueMul bool     // products of two non-constant integer terms are written tm(a, b), uninterpreted: what the proof knows about them are lemma instances
	OpaqueDiv bool     // in contract expressions a / b with a non-constant divisor is written dv(a, b), uninterpreted (known through lemma instances only)
	NoPanicFrom []*Clause // with maypanic: callees whose characterised panic must nevertheless be unreachable here
	GhostLists [][2]string // (name, slice sort): ghost lists of this function
	Logs       [][2]string // (parameter, ghost list): effect of a call on the caller's ghost list
	MayPanic bool      // panics are allowed without characterisation (only for callers' benefit: reach is cut)
	Modifies []*Clause
	Lets     []*Clause // evaluated at entry
	PostLets []*Clause // evaluated at return
	Loops    []*LoopSpec
	Trusted  string // non-empty: body not verified, reason
	Inline   bool
	Pure     bool
	Uses     []*Clause // lemma instances assumed at entry
	PostUses []*Clause // lemma instances assumed at return
	Witness  []*Clause
	Opaque   []string
	File     string
	Line     int
	Props    map[string]bool
	NoSafety bool
	Assume   []*Clause // assumptions about the environment (listed in evidence)
	Bits     int
	Views    []GhostView // ghost set/position views of slice variables (Appendix B of DESIGN.md)
	Cases    [][]*Clause // case splits applied to every postcondition obligation (each list must be exhaustive)
}

type Lemma struct {
	Pkg      string
	Name     string
	Mode     string
	Preludes []string
	Params   []LemmaParam
	Requires []*Clause
	Ensures  []*Clause
	Props    []string
	Axiom    bool // assumed, not proved (listed)
	File     string
	Line     int
	Uses     []*Clause
}

type LemmaParam struct {
	Name string
	Sort string
}

type Macro struct {
	Name   string
	Params []string
	Body   *SExpr
	File   string
	Line   int
}

type Contracts struct {
	Funcs  map[string]*FuncContract // key: pkg + "." + name
	Macros map[string]*Macro
	Lemmas map[string]*Lemma
	Order  []string
	Files  []string
}

var clauseKeywords = map[string]bool{
	"func": true, "lemma": true, "axiom": true, "mode": true, "prelude": true, "requires": true, "ensures": true, "panics": true,
	"maypanic": true, "indexpanics": true, "nopanic": true, "ghostlist": true, "logs": true, "opaquemul": true, "opaquediv": true, "proves": true, "modifies": true, "loop": true, "invariant": true, "decreases": true, "unroll": true, "witness": true,
	"let": true, "postlet": true, "trusted": true, "inline": true, "pure": true, "use": true, "postuse": true, "opaque": true,
	"havoc": true, "nosafety": true, "assume": true, "param": true, "loopmodifies": true, "looplet": true, "loopuse": true, "stepassert": true, "bits": true, "end": true, "macro": true, "cases": true, "ghostview": true, "assumedensures": true,
}

var tagRe = regexp.MustCompile(`^([a-z]+)(\[([A-Za-z0-9_,]+)\])?(\s+|$)`)

func LoadContracts(repo string, overlay map[string][]byte) (*Contracts, error) {
	cs := &Contracts{Funcs: map[string]*FuncContract{}, Lemmas: map[string]*Lemma{}, Macros: map[string]*Macro{}}
	files, _ := filepath.Glob(filepath.Join(repo, "*", "contracts_verif.go"))
	more, _ := filepath.Glob(filepath.Join(repo, "*", "*", "contracts_verif.go"))
	files = append(files, more...)
	top, _ := filepath.Glob(filepath.Join(repo, "contracts_verif.go"))
	files = append(files, top...)
	for _, f := range files {
		var data []byte
		if o, ok := overlay[f]; ok {
			data = o
		} else {
			d, err := os.ReadFile(f)
			if err != nil {
				return nil, err
			}
			data = d
		}
		rel, _ := filepath.Rel(repo, filepath.Dir(f))
		if rel == "." {
			rel = "main"
		}
		if err := cs.parseFile(f, rel, string(data)); err != nil {
			return nil, err
		}
		cs.Files = append(cs.Files, f)
	}
	return cs, nil
}

type rawClause struct {
	kw    string
	props []string
	text  string
	line  int
}

func (cs *Contracts) parseFile(file, pkg, src string) error {
	var raws []rawClause
	for i, line := range strings.Split(src, "\n") {
		t := strings.TrimSpace(line)
		if !strings.HasPrefix(t, "//@") {
			continue
		}
		t = strings.TrimSpace(t[3:])
		if t == "" {
			continue
		}
		// strip trailing comment
		if j := strings.Index(t, " // "); j >= 0 {
			t = strings.TrimSpace(t[:j])
		}
		m := tagRe.FindStringSubmatch(t)
		if m != nil && clauseKeywords[m[1]] {
			var props []string
			if m[3] != "" {
				props = strings.Split(m[3], ",")
			}
			raws = append(raws, rawClause{kw: m[1], props: props, text: strings.TrimSpace(t[len(m[0]):]), line: i + 1})
		} else {
			if len(raws) == 0 {
				return fmt.Errorf("%s:%d: continuation without clause", file, i+1)
			}
			raws[len(raws)-1].text += " " + t
		}
	}
	var fc *FuncContract
	var lm *Lemma
	var loop *LoopSpec
	mk := func(r rawClause) (*Clause, error) {
		c := &Clause{Kind: r.kw, Props: r.props, Text: r.text, File: file, Line: r.line}
		if i := strings.Index(r.text, " using "); i >= 0 {
			for _, u := range strings.Split(r.text[i+len(" using "):], ";") {
				if u = strings.TrimSpace(u); u != "" {
					ue, err := ParseSpec(u)
					if err != nil {
						return nil, fmt.Errorf("%s:%d: %v in %q", file, r.line, err, u)
					}
					c.Using = append(c.Using, ue)
				}
			}
			r.text = strings.TrimSpace(r.text[:i])
			c.Text = r.text
		}
		e, err := ParseSpec(r.text)
		if err != nil {
			return nil, fmt.Errorf("%s:%d: %v in %q", file, r.line, err, r.text)
		}
		c.Expr = e
		return c, nil
	}
	mkNamed := func(r rawClause) (*Clause, error) {
		// name = expr   |  name: expr
		i := strings.IndexAny(r.text, "=:")
		if i < 0 {
			return nil, fmt.Errorf("%s:%d: expected name = expr", file, r.line)
		}
		name := strings.TrimSpace(r.text[:i])
		rest := strings.TrimSpace(r.text[i+1:])
		c := &Clause{Kind: r.kw, Props: r.props, Text: rest, Name: name, File: file, Line: r.line}
		e, err := ParseSpec(rest)
		if err != nil {
			return nil, fmt.Errorf("%s:%d: %v in %q", file, r.line, err, rest)
		}
		c.Expr = e
		return c, nil
	}
	for _, r := range raws {
		switch r.kw {
		case "func":
			fc = &FuncContract{Pkg: pkg, Name: r.text, Mode: "int", File: file, Line: r.line, Props: map[string]bool{}}
			lm, loop = nil, nil
			key := pkg + "." + r.text
			if _, dup := cs.Funcs[key]; dup {
				return fmt.Errorf("%s:%d: duplicate contract for %s", file, r.line, key)
			}
			cs.Funcs[key] = fc
			cs.Order = append(cs.Order, key)
			continue
		case "macro":
			// macro name(a, b) = expr
			i := strings.Index(r.text, "=")
			head := strings.TrimSpace(r.text[:i])
			j := strings.Index(head, "(")
			if i < 0 || j < 0 {
				return fmt.Errorf("%s:%d: bad macro", file, r.line)
			}
			m := &Macro{Name: strings.TrimSpace(head[:j]), File: file, Line: r.line}
			for _, p := range strings.Split(strings.TrimSuffix(strings.TrimSpace(head[j+1:]), ")"), ",") {
				if p = strings.TrimSpace(p); p != "" {
					m.Params = append(m.Params, p)
				}
			}
			e, err := ParseSpec(strings.TrimSpace(r.text[i+1:]))
			if err != nil {
				return fmt.Errorf("%s:%d: %v", file, r.line, err)
			}
			m.Body = e
			if _, dup := cs.Macros[m.Name]; dup {
				return fmt.Errorf("%s:%d: duplicate macro %s", file, r.line, m.Name)
			}
			cs.Macros[m.Name] = m
			fc, lm, loop = nil, nil, nil
			continue
		case "lemma", "axiom":
			// lemma name(x Int, y Int)
			name := r.text
			var params []LemmaParam
			if i := strings.Index(name, "("); i >= 0 {
				ps := strings.TrimSuffix(strings.TrimSpace(name[i+1:]), ")")
				name = strings.TrimSpace(name[:i])
				for _, p := range strings.Split(ps, ",") {
					p = strings.TrimSpace(p)
					if p == "" {
						continue
					}
					parts := strings.Fields(p)
					if len(parts) != 2 {
						return fmt.Errorf("%s:%d: bad lemma parameter %q", file, r.line, p)
					}
					params = append(params, LemmaParam{parts[0], parts[1]})
				}
			}
			lm = &Lemma{Pkg: pkg, Name: name, Mode: "int", Params: params, Props: r.props, Axiom: r.kw == "axiom", File: file, Line: r.line}
			fc, loop = nil, nil
			key := pkg + "." + name
			if _, dup := cs.Lemmas[key]; dup {
				return fmt.Errorf("%s:%d: duplicate lemma %s", file, r.line, key)
			}
			cs.Lemmas[key] = lm
			cs.Order = append(cs.Order, "lemma:"+key)
			continue
		}
		if fc == nil && lm == nil {
			return fmt.Errorf("%s:%d: clause outside func/lemma", file, r.line)
		}
		if lm != nil {
			switch r.kw {
			case "mode":
				lm.Mode = r.text
			case "prelude":
				lm.Preludes = append(lm.Preludes, strings.Fields(r.text)...)
			case "requires", "ensures", "use":
				c, err := mk(r)
				if err != nil {
					return err
				}
				switch r.kw {
				case "requires":
					lm.Requires = append(lm.Requires, c)
				case "ensures":
					lm.Ensures = append(lm.Ensures, c)
				default:
					lm.Uses = append(lm.Uses, c)
				}
			default:
				return fmt.Errorf("%s:%d: clause %q not allowed in lemma", file, r.line, r.kw)
			}
			continue
		}
		for _, p := range r.props {
			fc.Props[p] = true
		}
		switch r.kw {
		case "mode":
			fc.Mode = r.text
		case "bits":
			fmt.Sscanf(r.text, "%d", &fc.Bits)
		case "prelude":
			fc.Preludes = append(fc.Preludes, strings.Fields(r.text)...)
		case "trusted":
			fc.Trusted = strings.Trim(r.text, `"`)
			if fc.Trusted == "" {
				fc.Trusted = "no reason given"
			}
		case "inline":
			fc.Inline = true
		case "pure":
			fc.Pure = true
		case "maypanic":
			fc.MayPanic = true
		case "indexpanics":
			fc.IndexPanics = true
		case "nopanic":
			// nopanic <callee>: although this function may panic (maypanic), the stated panic of that callee is proved unreachable
			fc.NoPanicFrom = append(fc.NoPanicFrom, &Clause{Kind: "nopanic", Props: r.props, Text: strings.TrimSpace(r.text), File: file, Line: r.line})
		case "ghostlist":
			// ghostlist <name> <slice sort>: a ghost list, empty on entry, extended by callees that `logs ... to <name>`
			parts := strings.Fields(r.text)
			if len(parts) != 2 {
				return fmt.Errorf("%s:%d: ghostlist <name> <sort>", file, r.line)
			}
			fc.GhostLists = append(fc.GhostLists, [2]string{parts[0], parts[1]})
		case "logs":
			// logs <parameter> to <ghost list>: a call appends the elements of that (slice) argument to the caller's ghost list
			parts := strings.Fields(r.text)
			if len(parts) != 3 || parts[1] != "to" {
				return fmt.Errorf("%s:%d: logs <parameter> to <ghost list>", file, r.line)
			}
			fc.Logs = append(fc.Logs, [2]string{parts[0], parts[2]})
		case "opaquemul":
			fc.OpaqueMul = true
		case "opaquediv":
			fc.OpaqueDiv = true
		case "nosafety":
			fc.NoSafety = true
		case "opaque":
			fc.Opaque = append(fc.Opaque, strings.Fields(strings.ReplaceAll(r.text, ",", " "))...)
		case "ghostview":
			// ghostview <slice variable> by <field>
			parts := strings.Fields(r.text)
			if len(parts) != 3 || parts[1] != "by" {
				return fmt.Errorf("%s:%d: expected: ghostview <var> by <field>", file, r.line)
			}
			fc.Views = append(fc.Views, GhostView{Name: parts[0], Key: parts[2]})
		case "cases":
			// cases a | b | c   : the alternatives are contract expressions
			var alts []*Clause
			for _, part := range splitTopLevelBars(r.text) {
				e, err := ParseSpec(part)
				if err != nil {
					return fmt.Errorf("%s:%d: %v in %q", file, r.line, err, part)
				}
				alts = append(alts, &Clause{Kind: "case", Text: part, Expr: e, File: file, Line: r.line})
			}
			fc.Cases = append(fc.Cases, alts)
		case "end":
			loop = nil
		case "loop":
			// loop <key> [unroll N | havoc]
			parts := strings.Fields(strings.ReplaceAll(r.text, ":", " "))
			if len(parts) == 0 {
				return fmt.Errorf("%s:%d: loop needs a key", file, r.line)
			}
			loop = &LoopSpec{Key: parts[0]}
			for i := 1; i < len(parts); i++ {
				switch parts[i] {
				case "unroll":
					if i+1 < len(parts) {
						fmt.Sscanf(parts[i+1], "%d", &loop.Unroll)
						i++
					}
				case "havoc":
					loop.Havoc = true
				case "isolated":
					loop.Isolated = true
				case "as":
					if i+1 < len(parts) {
						loop.Alias = parts[i+1]
						i++
					}
				}
			}
			fc.Loops = append(fc.Loops, loop)
		case "unroll":
			if loop == nil {
				return fmt.Errorf("%s:%d: unroll outside loop", file, r.line)
			}
			fmt.Sscanf(r.text, "%d", &loop.Unroll)
		case "havoc":
			if loop == nil {
				return fmt.Errorf("%s:%d: havoc outside loop", file, r.line)
			}
			loop.Havoc = true
		case "stepassert":
			if loop == nil {
				return fmt.Errorf("%s:%d: stepassert outside loop", file, r.line)
			}
			c, err := mk(r)
			if err != nil {
				return err
			}
			loop.Asserts = append(loop.Asserts, c)
		case "loopuse":
			if loop == nil {
				return fmt.Errorf("%s:%d: loopuse outside loop", file, r.line)
			}
			c, err := mk(r)
			if err != nil {
				return err
			}
			loop.Uses = append(loop.Uses, c)
		case "invariant", "decreases", "loopmodifies":
			if loop == nil {
				return fmt.Errorf("%s:%d: %s outside loop", file, r.line, r.kw)
			}
			c, err := mk(r)
			if err != nil {
				return err
			}
			switch r.kw {
			case "invariant":
				loop.Invariants = append(loop.Invariants, c)
			case "decreases":
				loop.Decreases = c
			default:
				loop.Modifies = append(loop.Modifies, c)
			}
		case "looplet":
			if loop == nil {
				return fmt.Errorf("%s:%d: looplet outside loop", file, r.line)
			}
			c, err := mkNamed(r)
			if err != nil {
				return err
			}
			loop.Lets = append(loop.Lets, c)
		case "let", "postlet", "witness":
			c, err := mkNamed(r)
			if err != nil {
				return err
			}
			switch r.kw {
			case "let":
				fc.Lets = append(fc.Lets, c)
			case "postlet":
				fc.PostLets = append(fc.PostLets, c)
			default:
				fc.Witness = append(fc.Witness, c)
			}
		default:
			c, err := mk(r)
			if err != nil {
				return err
			}
			switch r.kw {
			case "requires":
				fc.Requires = append(fc.Requires, c)
			case "ensures":
				fc.Ensures = append(fc.Ensures, c)
			case "proves":
				// an intermediate postcondition: proved like `ensures` (and usable by later clauses through
				// `using post(k)`), but not handed to callers
				c.Kind = "proves"
				fc.Ensures = append(fc.Ensures, c)
			case "assumedensures":
				fc.AssumedEnsures = append(fc.AssumedEnsures, c)
			case "panics":
				fc.Panics = append(fc.Panics, c)
			case "modifies":
				fc.Modifies = append(fc.Modifies, c)
			case "use":
				fc.Uses = append(fc.Uses, c)
			case "postuse":
				fc.PostUses = append(fc.PostUses, c)
			case "assume":
				fc.Assume = append(fc.Assume, c)
			default:
				return fmt.Errorf("%s:%d: unexpected clause %q", file, r.line, r.kw)
			}
		}
	}
	return nil
}

// splitTopLevelBars splits at single '|' characters outside parentheses (|| is the boolean operator).
func splitTopLevelBars(s string) []string {
	var out []string
	depth, start := 0, 0
	for i := 0; i < len(s); i++ {
		switch s[i] {
		case '(', '[':
			depth++
		case ')', ']':
			depth--
		case '|':
			if i+1 < len(s) && s[i+1] == '|' {
				i++
				continue
			}
			if depth == 0 {
				out = append(out, strings.TrimSpace(s[start:i]))
				start = i + 1
			}
		}
	}
	out = append(out, strings.TrimSpace(s[start:]))
	return out
}

func (fc *FuncContract) Key() string { return fc.Pkg + "." + fc.Name }

func (fc *FuncContract) loopSpec(key string, ordinal int) *LoopSpec {
	for _, l := range fc.Loops {
		if l.Key == key || l.Key == fmt.Sprintf("#%d", ordinal) {
			return l
		}
	}
	return nil
}

// loopSpecNamed: key "name" matches the first loop carrying that variable name, "name#k" the k-th (1-based).
func (fc *FuncContract) loopSpecNamed(name string, occurrence int) *LoopSpec {
	for _, l := range fc.Loops {
		if l.Key == fmt.Sprintf("%s#%d", name, occurrence) || (occurrence == 1 && l.Key == name) {
			return l
		}
	}
	return nil
}

func hasProp(props []string, p string) bool {
	if p == "" {
		return true
	}
	if len(props) == 0 {
		return true // untagged support clause: runs with every property using the function
	}
	for _, q := range props {
		if q == p {
			return true
		}
	}
	return false
}
