package main

// Symbolic executor over go/ssa: unrolled/cut control-flow DAG with state merging.

import (
	"runtime/debug"
	"container/heap"
	"go/ast"
	"os"
	"math/big"
	"fmt"
	"go/token"
	"go/types"
	"sort"
	"strings"

	"golang.org/x/tools/go/ssa"
)

type Exec struct {
	P        *Program
	vc       *VC
	top      *FuncContract
	topFn    *ssa.Function
	prop     string
	dry      int
	suppress int
	written  map[*Cell]map[int]bool // cell -> top-level struct fields written (-1: the whole cell)
	cellN    int
	panics   []panicExit
	entry    State
	oblSeq   map[string]int
	regions  []string // regions not verified (havoc loops)
	trusted  map[string]string
	external map[string]bool
	underCon map[string]bool // functions whose contract was used at a call site
	inlined  map[string]bool
	overflow bool
	bits     int
	uses     []string
	callSeq    map[string]int
	globalInit map[*Cell]Term
	globals    map[*ssa.Global]*Cell
	inlineSeq  int
	noSafety   bool
	lemmaPkg   string
	chans      map[string]*chanModel
	views      map[string]*viewCells
	iters      []iterInfo
	iterByName map[string]*Cell
	ghostLists map[string]*Cell    // ghost lists of the function under verification, by name
	chanHist   map[ssa.Value]*Cell // per channel parameter: the values received from it so far (ghost list recv_<name>)
	seq        int
}

type viewCells struct {
	set, pos *Cell
	key      string
}

type panicExit struct {
	reach Term
	what  string
}

type Loop struct {
	header  *ssa.BasicBlock
	blocks  map[*ssa.BasicBlock]bool
	spec    *LoopSpec
	ordinal int
	key     string
	unroll  int // 0: cut at the header
	depth   int
	// state captured at the cut header
	headNames map[string]Val
	measure   Term
	hasMeas   bool
	phis      []*ssa.Phi
	headReach Term
	latches   int
	sharedPhis map[*ssa.Phi]bool
	headSt     State
	headItem   int
	headInvs   []string // the invariants as assumed at the head (SMT assertions), for `using inv(k)`
}

type Edge struct {
	from  *ssa.BasicBlock
	cond  Term
	env   map[ssa.Value]Val
	names map[string]Val
	st    State
}

type Node struct {
	blk  *ssa.BasicBlock
	ctx  []int
	key  []int
	in   []Edge
	done bool
	idx  int
	id   string
}

type nodeHeap []*Node

func (h nodeHeap) Len() int { return len(h) }
func (h nodeHeap) Less(i, j int) bool {
	a, b := h[i].key, h[j].key
	for k := 0; k < len(a) && k < len(b); k++ {
		if a[k] != b[k] {
			return a[k] < b[k]
		}
	}
	return len(a) < len(b)
}
func (h nodeHeap) Swap(i, j int) { h[i], h[j] = h[j], h[i] }
func (h *nodeHeap) Push(x any)   { *h = append(*h, x.(*Node)) }
func (h *nodeHeap) Pop() any {
	old := *h
	n := old[len(old)-1]
	*h = old[:len(old)-1]
	return n
}

type retEdge struct {
	reach   Term
	results []Val
	st      State
	names   map[string]Val
	pos     token.Pos
}

type Frame struct {
	ex       *Exec
	fn       *ssa.Function
	fc       *FuncContract
	rpo      map[*ssa.BasicBlock]int
	loops    map[*ssa.BasicBlock]*Loop
	loopsOf  map[*ssa.BasicBlock][]*Loop
	nodes    map[string]*Node
	pq       nodeHeap
	rets     []retEdge
	restrict *Loop
	prefix   string
	depth    int
	params   map[string]Val
	isTop    bool
	oldScope *Scope
	exits    []Edge // edges leaving `restrict` (ignored)
	defs     map[ast.Expr]ast.Expr
}

func (ex *Exec) newCell(name string, sort *Sort, typ types.Type) *Cell {
	ex.cellN++
	return &Cell{Name: fmt.Sprintf("%s@%d", name, ex.cellN), Sort: sort, Type: typ, ID: ex.cellN}
}

func (ex *Exec) fail(format string, args ...any) {
	if os.Getenv("GVC_STACK") != "" {
		fmt.Fprintf(os.Stderr, format+"\n", args...)
		debug.PrintStack()
	}
	panic(unsupported(fmt.Sprintf(format, args...)))
}

// ---- loop analysis ----

func (f *Frame) analyse() {
	fn := f.fn
	f.rpo = map[*ssa.BasicBlock]int{}
	seen := map[*ssa.BasicBlock]bool{}
	var post []*ssa.BasicBlock
	var dfs func(b *ssa.BasicBlock)
	dfs = func(b *ssa.BasicBlock) {
		seen[b] = true
		for _, s := range b.Succs {
			if !seen[s] {
				dfs(s)
			}
		}
		post = append(post, b)
	}
	dfs(fn.Blocks[0])
	for i, b := range post {
		f.rpo[b] = len(post) - 1 - i
	}
	f.loops = map[*ssa.BasicBlock]*Loop{}
	f.loopsOf = map[*ssa.BasicBlock][]*Loop{}
	for _, b := range fn.Blocks {
		if !seen[b] {
			continue
		}
		for _, s := range b.Succs {
			if s.Dominates(b) { // back edge b -> s
				l := f.loops[s]
				if l == nil {
					l = &Loop{header: s, blocks: map[*ssa.BasicBlock]bool{s: true}}
					f.loops[s] = l
				}
				l.latches++
				// natural loop: nodes reaching b without passing s
				var stack []*ssa.BasicBlock
				if !l.blocks[b] {
					l.blocks[b] = true
					stack = append(stack, b)
				}
				for len(stack) > 0 {
					x := stack[len(stack)-1]
					stack = stack[:len(stack)-1]
					for _, p := range x.Preds {
						if !l.blocks[p] && seen[p] {
							l.blocks[p] = true
							stack = append(stack, p)
						}
					}
				}
			}
		}
	}
	var hs []*ssa.BasicBlock
	for h := range f.loops {
		hs = append(hs, h)
	}
	sort.Slice(hs, func(i, j int) bool { return hs[i].Index < hs[j].Index })
	// ordinal in source order: by the position of the loop statement (smallest position in the header block)
	posOf := func(h *ssa.BasicBlock) token.Pos {
		// the smallest source position of any instruction of the loop (outer loops come before their inner loops,
		// siblings in textual order)
		best := token.NoPos
		for b := range f.loops[h].blocks {
			for _, ins := range b.Instrs {
				if p := ins.Pos(); p.IsValid() && (best == token.NoPos || p < best) {
					best = p
				}
			}
		}
		return best
	}
	sort.SliceStable(hs, func(i, j int) bool {
		pi, pj := posOf(hs[i]), posOf(hs[j])
		if pi != pj && pi.IsValid() && pj.IsValid() {
			return pi < pj
		}
		return f.rpo[hs[i]] < f.rpo[hs[j]]
	})
	nameCount := map[string]int{}
	for i, h := range hs {
		l := f.loops[h]
		l.ordinal = i
		for _, ins := range h.Instrs {
			if phi, ok := ins.(*ssa.Phi); ok {
				l.phis = append(l.phis, phi)
			}
		}
		// find spec: by the names of the variables the loop itself assigns (innermost loop of the DebugRef),
		// the k-th loop (in source order) with a given name is addressed as name#k
		if f.fc != nil {
			names := f.loopOwnNames(l)
			for _, phi := range l.phis {
				if phi.Comment != "" && phi.Comment != "rangeindex" {
					names[phi.Comment] = true
				}
			}
			for _, name := range sortedKeys(names) {
				nameCount[name]++
				if sp := f.fc.loopSpecNamed(name, nameCount[name]); sp != nil && l.spec == nil {
					l.spec = sp
					l.key = sp.Key
				}
			}
			if l.spec == nil {
				if sp := f.fc.loopSpec("", i); sp != nil {
					l.spec = sp
					l.key = sp.Key
				}
			}
		}
		if l.key == "" {
			l.key = fmt.Sprintf("#%d", i)
			for _, phi := range l.phis {
				if phi.Comment != "" {
					l.key = phi.Comment
					break
				}
			}
		}
		if os.Getenv("GVC_DEBUG") != "" && f.fc != nil {
			fmt.Fprintf(os.Stderr, "loop #%d header block %d key %q spec=%v names=%v\n", i, h.Index, l.key, l.spec != nil, sortedKeys(f.loopOwnNames(l)))
		}
		if l.spec != nil && l.spec.Unroll > 0 {
			l.unroll = l.spec.Unroll
		} else if l.spec == nil {
			l.unroll = 8 // no annotation: try to unroll; the unwinding assertion decides
		}
	}
	for _, b := range fn.Blocks {
		var ls []*Loop
		for _, l := range f.loops {
			if l.blocks[b] {
				ls = append(ls, l)
			}
		}
		sort.Slice(ls, func(i, j int) bool { return len(ls[i].blocks) > len(ls[j].blocks) })
		f.loopsOf[b] = ls
	}
	for _, l := range f.loops {
		l.depth = len(f.loopsOf[l.header])
	}
}

// loopOwnNames: source variables assigned by DebugRefs whose innermost enclosing loop is l.
func (f *Frame) loopOwnNames(l *Loop) map[string]bool {
	m := map[string]bool{}
	for b := range l.blocks {
		// innermost loop of b
		inner := l
		for _, o := range f.loops {
			if o.blocks[b] && len(o.blocks) < len(inner.blocks) {
				inner = o
			}
		}
		if inner != l {
			continue
		}
		for _, ins := range b.Instrs {
			if d, ok := ins.(*ssa.DebugRef); ok && !d.IsAddr {
				if obj := d.Object(); obj != nil {
					if v, isVar := obj.(*types.Var); isVar {
						// only variables declared inside the loop (position within the loop's extent is approximated
						// by: the value is defined in a block of the loop)
						if vi, ok := d.X.(ssa.Instruction); ok && l.blocks[vi.Block()] {
							m[v.Name()] = true
						}
					}
				}
			}
		}
	}
	return m
}

func (f *Frame) nodeKey(b *ssa.BasicBlock, ctx []int) []int {
	var k []int
	for i, l := range f.loopsOf[b] {
		k = append(k, f.rpo[l.header], ctx[i])
	}
	k = append(k, f.rpo[b])
	return k
}

func (f *Frame) getNode(b *ssa.BasicBlock, ctx []int) *Node {
	id := fmt.Sprint(b.Index, ctx)
	if n, ok := f.nodes[id]; ok {
		return n
	}
	n := &Node{blk: b, ctx: append([]int(nil), ctx...), key: f.nodeKey(b, ctx), id: id}
	f.nodes[id] = n
	heap.Push(&f.pq, n)
	return n
}

// addEdge routes control from node `from` to block `to`.
func (f *Frame) addEdge(from *Node, to *ssa.BasicBlock, cond Term, env map[ssa.Value]Val, names map[string]Val, st State) {
	if cond.B != nil && !*cond.B {
		return
	}
	e := Edge{from: from.blk, cond: cond, env: env, names: names, st: st}
	if f.restrict != nil && !f.restrict.blocks[to] {
		f.exits = append(f.exits, e)
		return
	}
	lf := f.loopsOf[from.blk]
	lt := f.loopsOf[to]
	ctx := make([]int, len(lt))
	for i, l := range lt {
		if i < len(lf) && lf[i] == l {
			ctx[i] = from.ctx[i]
		}
	}
	if l, isHeader := f.loops[to]; isHeader && l.blocks[from.blk] {
		// back edge
		if l.unroll == 0 {
			if f.restrict == l && f.ex.dry > 0 {
				return
			}
			f.backEdge(l, e)
			return
		}
		d := l.depth - 1
		ctx[d] = from.ctx[d] + 1
		if ctx[d] > l.unroll {
			f.ex.obl(&Obligation{Name: fmt.Sprintf("%s.unwind.%s", f.oblBase(), l.key), Kind: "unwind", Hyp: cond, Goal: TFalse,
				Note: fmt.Sprintf("loop %s runs more than %d times (no invariant given)", l.key, l.unroll), Pos: f.pos(to.Instrs[0].Pos())})
			return
		}
	}
	n := f.getNode(to, ctx)
	if n.done {
		f.ex.fail("edge into processed node %s of %s (irreducible control flow?)", n.id, f.fn.Name())
	}
	n.in = append(n.in, e)
}

func (f *Frame) pos(p token.Pos) string {
	if !p.IsValid() {
		return ""
	}
	ps := f.ex.P.prog.Fset.Position(p)
	return fmt.Sprintf("%s:%d", strings.TrimPrefix(ps.Filename, f.ex.P.Repo+"/"), ps.Line)
}

func (f *Frame) oblBase() string {
	return funcKey(f.fn)
}

func (ex *Exec) obl(o *Obligation) {
	if ex.dry > 0 || ex.suppress > 0 {
		return
	}
	if o.Goal.B != nil && *o.Goal.B {
		return // trivially true
	}
	if o.Hyp.B != nil && !*o.Hyp.B {
		return
	}
	ex.vc.AddObl(o)
}

// ---- merging ----

func (ex *Exec) mergeVals(conds []Term, vals []Val, what string) Val {
	first := vals[0]
	same := true
	for _, v := range vals[1:] {
		if !sameVal(first, v) {
			same = false
			break
		}
	}
	if same {
		return first
	}
	if len(first.Tup) > 0 {
		out := Val{Tup: make([]Val, len(first.Tup))}
		for i := range first.Tup {
			sub := make([]Val, len(vals))
			for j, v := range vals {
				sub[j] = v.Tup[i]
			}
			out.Tup[i] = ex.mergeVals(conds, sub, what)
		}
		return out
	}
	if first.IsPtr || (len(vals) > 0 && anyPtr(vals)) {
		// nil on some paths, one and the same location on the others: a possibly-nil static pointer
		var loc *LV
		ok := true
		var nilConds []Term
		for i, v := range vals {
			if !v.IsPtr {
				ok = false
				break
			}
			if v.P == nil {
				nilConds = append(nilConds, conds[i])
				continue
			}
			if v.NilIf.Sort != nil {
				nilConds = append(nilConds, And(conds[i], v.NilIf))
			}
			if loc == nil {
				loc = v.P
			} else if !sameLV(loc, v.P) {
				ok = false
			}
		}
		if ok && loc != nil && len(nilConds) > 0 {
			return Val{IsPtr: true, P: loc, NilIf: ex.vc.Define("mpn_"+what, Or(nilConds...))}
		}
	}
	if first.IsPtr || first.Fn != nil || first.Iter != nil {
		// static pointers must agree; allow nil vs non-nil only through boxing (not supported here)
		if first.IsPtr && first.P != nil {
			// same cell and same shape of path: merge the index terms
			ok := true
			for _, v := range vals {
				if !v.IsPtr || v.P == nil || v.P.Cell != first.P.Cell || len(v.P.Path) != len(first.P.Path) {
					ok = false
					break
				}
				for i, pe := range v.P.Path {
					if pe.Kind != first.P.Path[i].Kind || pe.Field != first.P.Path[i].Field {
						ok = false
					}
				}
			}
			if ok {
				lv := &LV{Cell: first.P.Cell, Epoch: first.P.Epoch, Path: make([]PathElem, len(first.P.Path))}
				for i, pe := range first.P.Path {
					lv.Path[i] = pe
					if pe.Kind == 'f' || pe.Kind == 'b' {
						continue
					}
					r := vals[len(vals)-1].P.Path[i].Idx
					for j := len(vals) - 2; j >= 0; j-- {
						r = Ite(conds[j], vals[j].P.Path[i].Idx, r)
					}
					lv.Path[i].Idx = ex.vc.Define("mp_"+what, r)
				}
				out := Val{IsPtr: true, P: lv}
				anyNil := false
				for _, v := range vals {
					if v.NilIf.Sort != nil {
						anyNil = true
					}
				}
				if anyNil {
					r := TFalse
					if vals[len(vals)-1].NilIf.Sort != nil {
						r = vals[len(vals)-1].NilIf
					}
					for j := len(vals) - 2; j >= 0; j-- {
						nj := TFalse
						if vals[j].NilIf.Sort != nil {
							nj = vals[j].NilIf
						}
						r = Ite(conds[j], nj, r)
					}
					out.NilIf = ex.vc.Define("mpn_"+what, r)
				}
				return out
			}
		}
		for _, v := range vals {
			if !v.IsPtr || !sameLV(v.P, first.P) {
				return Val{Poison: "merge of different static pointers for " + what}
			}
		}
		return first
	}
	for _, v := range vals {
		if v.Src != nil {
			return Val{} // different definitions reach here: the variable is re-bound by a phi or a later definition
		}
		if v.Poison != "" {
			return v
		}
		if v.IsPtr || v.Fn != nil || len(v.Tup) > 0 || v.T.Sort == nil {
			return Val{Poison: "merge of values of different kinds for " + what}
		}
	}
	// data: ite chain; views lose their origin unless identical
	cur := ex.curVal(vals[len(vals)-1], nil)
	ts := make([]Term, len(vals))
	for i := range vals {
		ts[i] = vals[i].T
		if !sameSort(ts[i].Sort, cur.Sort) {
			return Val{Poison: fmt.Sprintf("merge of different sorts for %s: %s vs %s", what, ts[i].Sort, cur.Sort)}
		}
	}
	out := Val{T: ex.vc.Define("m_"+what, mergeTerms(ex.vc, conds, ts, 0))}
	for _, v := range vals {
		if v.Shared {
			out.Shared = true
		}
	}
	sameOrigin := true
	for _, v := range vals {
		if !sameLV(v.Origin, first.Origin) {
			sameOrigin = false
		}
	}
	if sameOrigin {
		out.Origin = first.Origin
	}
	return out
}

func anyPtr(vals []Val) bool {
	for _, v := range vals {
		if v.IsPtr {
			return true
		}
	}
	return false
}

// curVal: the data term of a value
func (ex *Exec) curVal(v Val, _ State) Term { return v.T }

func sameVal(a, b Val) bool {
	if a.IsPtr != b.IsPtr || len(a.Tup) != len(b.Tup) || a.Fn != b.Fn || a.Iter != b.Iter || a.Src != b.Src {
		return false
	}
	if a.Src != nil {
		return true
	}
	if a.IsPtr {
		return sameLV(a.P, b.P) && a.NilIf.S == b.NilIf.S
	}
	if len(a.Tup) > 0 {
		for i := range a.Tup {
			if !sameVal(a.Tup[i], b.Tup[i]) {
				return false
			}
		}
		return true
	}
	if a.Fn != nil || a.Iter != nil {
		return true
	}
	return a.T.S == b.T.S && sameLV(a.Origin, b.Origin)
}

func (ex *Exec) mergeStates(conds []Term, sts []State) State {
	out := State{}
	cells := map[*Cell]bool{}
	for _, s := range sts {
		for c := range s {
			cells[c] = true
		}
	}
	// deterministic order
	var cs []*Cell
	for c := range cells {
		cs = append(cs, c)
	}
	sort.Slice(cs, func(i, j int) bool { return cs[i].ID < cs[j].ID })
	for _, c := range cs {
		var ts []Term
		var cds []Term
		for i, s := range sts {
			if t, ok := s[c]; ok {
				ts = append(ts, t)
				cds = append(cds, conds[i])
			}
		}
		same := true
		for _, t := range ts[1:] {
			if t.S != ts[0].S {
				same = false
			}
		}
		if same {
			out[c] = ts[0]
			continue
		}
		out[c] = ex.vc.Define("mc_"+c.Name, mergeTerms(ex.vc, cds, ts, 0))
	}
	return out
}

// mergeTerms: ite chain; struct values are merged field by field so that fields that are the same on every
// path stay syntactically the same term (accessors then fold instead of being hidden behind an ite).
func mergeTerms(vc *VC, cds []Term, ts []Term, depth int) Term {
	same := true
	for _, t := range ts[1:] {
		if t.S != ts[0].S {
			same = false
		}
	}
	if same {
		return ts[0]
	}
	s := ts[0].Sort
	if s.Kind == KData && (s.Role == "struct" || s.Role == "array") && depth < 4 && len(s.Fields) > 0 && len(s.Fields) <= 16 {
		fs := make([]Term, len(s.Fields))
		for i := range s.Fields {
			sub := make([]Term, len(ts))
			for j, t := range ts {
				sub[j] = FieldOf(t, i)
			}
			fs[i] = mergeTerms(vc, cds, sub, depth+1)
		}
		return MkData(s, fs...)
	}
	r := ts[len(ts)-1]
	for i := len(ts) - 2; i >= 0; i-- {
		r = Ite(cds[i], ts[i], r)
	}
	if vc != nil && s.Kind == KData && (s.Role == "map" || s.Role == "slice") {
		// containers are read inside quantifier patterns (hasKey / element terms); the solvers reject patterns that
		// contain an if-then-else, so a merged container gets a name of its own with a defining equation
		c := vc.Declare("mg", s)
		vc.Assume(Eq(c, r), "merged container value")
		return c
	}
	return r
}

type nodeState struct {
	reach Term
	env   map[ssa.Value]Val
	names map[string]Val
	st    State
}

// nsrc: which SSA value a ghost-viewed variable currently is. Kept inside names under a reserved key prefix so
// that it travels and merges with them (a Val with only Fn/SSA set would do, but a side table is simpler).
func srcKey(n string) string { return "\x00src:" + n }

func (f *Frame) mergeIn(n *Node) nodeState {
	ex := f.ex
	if len(n.in) == 0 {
		ex.fail("node without incoming edges")
	}
	conds := make([]Term, len(n.in))
	for i, e := range n.in {
		conds[i] = e.cond
		if e.from != nil && len(ex.views) > 0 && f.isTop {
			es := nodeState{reach: e.cond, env: e.env, names: e.names, st: e.st}
			f.syncViewsForPhis(&es, n.blk, predIndex(n.blk, e.from))
		}
	}
	var ns nodeState
	if len(n.in) == 1 {
		e := n.in[0]
		ns = nodeState{reach: e.cond, env: copyEnv(e.env), names: copyNames(e.names), st: e.st.clone()}
	} else {
		ns.reach = ex.vc.Define(fmt.Sprintf("%sR_b%d", f.prefix, n.blk.Index), Or(conds...))
		ns.env = map[ssa.Value]Val{}
		keys := map[ssa.Value]bool{}
		for _, e := range n.in {
			for k := range e.env {
				keys[k] = true
			}
		}
		var ks []ssa.Value
		for k := range keys {
			ks = append(ks, k)
		}
		sort.Slice(ks, func(i, j int) bool { return ks[i].Name() < ks[j].Name() })
		for _, k := range ks {
			var vals []Val
			var cds []Term
			for i, e := range n.in {
				if v, ok := e.env[k]; ok {
					vals = append(vals, v)
					cds = append(cds, conds[i])
				}
			}
			ns.env[k] = ex.mergeVals(cds, vals, f.prefix+k.Name())
		}
		ns.names = map[string]Val{}
		nkeys := map[string]bool{}
		for _, e := range n.in {
			for k := range e.names {
				nkeys[k] = true
			}
		}
		for _, k := range sortedKeys(nkeys) {
			var vals []Val
			var cds []Term
			ok := true
			for i, e := range n.in {
				if v, has := e.names[k]; has {
					vals = append(vals, v)
					cds = append(cds, conds[i])
				} else {
					ok = false
				}
			}
			if !ok {
				continue // not bound on every path: not visible
			}
			func() {
				defer func() {
					if r := recover(); r != nil {
						if _, isU := r.(unsupportedErr); !isU {
							panic(r)
						}
					}
				}()
				ns.names[k] = ex.mergeVals(cds, vals, f.prefix+"n_"+k)
			}()
		}
		sts := make([]State, len(n.in))
		for i, e := range n.in {
			sts[i] = e.st
		}
		ns.st = ex.mergeStates(conds, sts)
	}
	// phis
	for _, ins := range n.blk.Instrs {
		phi, ok := ins.(*ssa.Phi)
		if !ok {
			break
		}
		vals := make([]Val, len(n.in))
		for i, e := range n.in {
			pi := predIndex(n.blk, e.from)
			vals[i] = f.operand(e.env, phi.Edges[pi])
		}
		v := ex.mergeVals(conds, vals, f.prefix+phi.Name())
		ns.env[phi] = v
		if phi.Comment != "" {
			ns.names[phi.Comment] = v
			if _, isView := ex.views[phi.Comment]; isView && f.isTop {
				ns.names[srcKey(phi.Comment)] = Val{Src: phi}
			}
		}
	}
	return ns
}

func predIndex(b, from *ssa.BasicBlock) int {
	for i, p := range b.Preds {
		if p == from {
			return i
		}
	}
	panic("predIndex")
}

func copyEnv(m map[ssa.Value]Val) map[ssa.Value]Val {
	n := make(map[ssa.Value]Val, len(m)+8)
	for k, v := range m {
		n[k] = v
	}
	return n
}

func copyNames(m map[string]Val) map[string]Val {
	n := make(map[string]Val, len(m)+4)
	for k, v := range m {
		n[k] = v
	}
	return n
}

// ---- running a function body ----

func (f *Frame) run(entryBlk *ssa.BasicBlock, start nodeState) {
	f.nodes = map[string]*Node{}
	f.pq = nil
	ctx := make([]int, len(f.loopsOf[entryBlk]))
	n := f.getNode(entryBlk, ctx)
	n.in = []Edge{{from: nil, cond: start.reach, env: start.env, names: start.names, st: start.st}}
	f.loopPQ(n, &start)
}

func (f *Frame) loopPQ(first *Node, firstState *nodeState) {
	for f.pq.Len() > 0 {
		n := heap.Pop(&f.pq).(*Node)
		n.done = true
		var ns nodeState
		if n == first && firstState != nil {
			ns = nodeState{reach: firstState.reach, env: copyEnv(firstState.env), names: copyNames(firstState.names), st: firstState.st.clone()}
			if l, isH := f.loops[n.blk]; isH && l.unroll == 0 && f.restrict == l {
				// restricted run starting at a cut header: phis are already bound by the caller
				f.execBlock(n, ns, true)
				continue
			}
			if _, isH := f.loops[n.blk]; isH || len(n.blk.Preds) > 0 {
				// entry into a block with phis from a synthetic edge is only used for restricted runs
			}
			f.execBlock(n, ns, true)
			continue
		}
		if l, isH := f.loops[n.blk]; isH && l.unroll == 0 {
			f.cutHeader(n, l)
			continue
		}
		ns = f.mergeIn(n)
		f.execBlock(n, ns, false)
	}
}

// cutHeader processes the header of a loop that is cut with an invariant.
func (f *Frame) cutHeader(n *Node, l *Loop) {
	ex := f.ex
	ns := f.mergeIn(n)
	base := fmt.Sprintf("%s.loop.%s", f.oblBase(), l.key)
	_ = base
	// map range loops: the iterator's ghost set is readable as seen_<alias or key>
	for _, ins := range n.blk.Instrs {
		if nx, ok := ins.(*ssa.Next); ok && l.spec != nil {
			if it, ok := ns.env[nx.Iter]; ok && it.Iter != nil {
				if ex.iterByName == nil {
					ex.iterByName = map[string]*Cell{}
				}
				name := l.spec.Alias
				if name == "" {
					name = strings.Split(l.spec.Key, "#")[0]
				}
				ex.iterByName[name] = it.Iter
			}
		}
	}
	// 1. invariants hold on entry
	if l.spec != nil {
		f.bindAlias(l, ns.names, func(phi *ssa.Phi) Val { return ns.env[phi] })
		sc := f.scope(ns)
		for _, lt := range l.spec.Lets {
			ns.names[lt.Name] = Val{T: sc.eval(lt.Expr)}
			sc = f.scope(ns)
		}
		for i, inv := range l.spec.Invariants {
			if !hasProp(inv.Props, ex.prop) {
				continue
			}
			t := sc.evalBool(inv.Expr)
			ex.obl(&Obligation{Name: fmt.Sprintf("%s.init.%d", base, i+1), Kind: "inv-init", Props: inv.Props, Hyp: ns.reach, Goal: t,
				Note: "invariant holds on entry: " + inv.Text, Pos: f.pos(n.blk.Instrs[0].Pos())})
		}
	}
	// 2. which cells does the body write? dry run with everything arbitrary
	written := f.dryRun(l, ns)
	// 3. havoc
	for _, phi := range l.phis {
		v := f.havocVal(phi.Type(), f.prefix+"h_"+sanitize(l.key)+"_"+phi.Name(), ns.reach)
		resliced := false
		for _, e := range phi.Edges {
			if sl, ok := e.(*ssa.Slice); ok && sl.Low != nil {
				resliced = true // the loop re-slices this variable (v = v[k:]): it is treated as shared from the start
			}
		}
		if ns.env[phi].Shared || resliced {
			v.Shared = true
			if l.sharedPhis == nil {
				l.sharedPhis = map[*ssa.Phi]bool{}
			}
			l.sharedPhis[phi] = true
		}
		ns.env[phi] = v
		if phi.Comment != "" {
			ns.names[phi.Comment] = v
		}
	}
	f.bindAlias(l, ns.names, func(phi *ssa.Phi) Val { return ns.env[phi] })
	var ws []*Cell
	for c := range written {
		if _, live := ns.st[c]; live {
			ws = append(ws, c)
		}
	}
	sort.Slice(ws, func(i, j int) bool { return ws[i].ID < ws[j].ID })
	for _, c := range ws {
		fields := written[c]
		if fields[-1] || c.Sort.Role != "struct" {
			t := ex.vc.Declare(f.prefix+"hc_"+l.key+"_"+c.Name, c.Sort)
			ex.assumeRange(t, c.Type, ns.reach)
			ns.st[c] = t
			continue
		}
		// only the written fields become arbitrary
		cur := ns.st[c]
		st := c.Type.Underlying().(*types.Struct)
		var fis []int
		for fi := range fields {
			fis = append(fis, fi)
		}
		sort.Ints(fis)
		for _, fi := range fis {
			t := ex.vc.Declare(fmt.Sprintf("%shc_%s_%s_%s", f.prefix, l.key, c.Name, st.Field(fi).Name()), c.Sort.Fields[fi].Sort)
			ex.assumeRange(t, st.Field(fi).Type(), ns.reach)
			cur = WithField(cur, fi, t)
		}
		ns.st[c] = ex.vc.Define(f.prefix+"hc_"+l.key+"_"+c.Name, cur)
	}
	for c, fields := range written {
		for fi := range fields {
			ex.markWritten(c, fi)
		}
	}
	l.headReach = ns.reach
	l.headItem = len(ex.vc.items)
	// range loops over slices / arrays / strings: the compiler-generated index i (phi "rangeindex", -1 on entry,
	// incremented in the header and tested against a length computed before the loop) satisfies -1 <= i < length at the
	// head by construction; stated here so that contracts need not (and can, for unnamed range expressions, not) say it
	for _, phi := range l.phis {
		if phi.Comment != "rangeindex" || phi.Block() != l.header {
			continue
		}
		for _, ins := range l.header.Instrs {
			add, ok := ins.(*ssa.BinOp)
			if !ok || add.Op != token.ADD || add.X != phi {
				continue
			}
			if one, isC := add.Y.(*ssa.Const); !isC || one.Value == nil || one.Int64() != 1 {
				continue
			}
			for _, ins2 := range l.header.Instrs {
				cmp, ok := ins2.(*ssa.BinOp)
				if !ok || cmp.Op != token.LSS || cmp.X != add {
					continue
				}
				if lv, have := ns.env[cmp.Y]; have || isConstValue(cmp.Y) {
					if !have {
						lv = f.operand(ns.env, cmp.Y)
					}
					iv := ns.env[phi].T
					if lv.T.Sort.Kind == KInt && iv.Sort.Kind == KInt {
						ex.vc.Assume(Implies(ns.reach, And(leT(IntLit64(-1, SInt), iv), Or(ltT(iv, lv.T), And(Eq(iv, IntLit64(-1, SInt)), leT(lv.T, IntLit64(0, SInt)))))), "range index within the ranged length (by construction of range loops)")
					}
				}
			}
		}
	}
	// 4. assume invariants
	if l.spec != nil && l.spec.Decreases == nil {
		// a loop cut at its invariant without a decreases clause: range loops end by construction; for any other loop the
		// evidence says that its termination is not proved
		isRange := false
		for _, phi := range l.phis {
			if phi.Comment == "rangeindex" {
				isRange = true
			}
		}
		for _, ins := range l.header.Instrs {
			if _, ok := ins.(*ssa.Next); ok {
				isRange = true
			}
		}
		if !isRange {
			ex.vc.assumeNote(fmt.Sprintf("termination of loop %s of %s is NOT proved (no decreases clause)", l.key, f.fn.Name()))
		}
	}
	if l.spec != nil {
		sc := f.scope(ns)
		for _, lt := range l.spec.Lets {
			v := sc.eval(lt.Expr)
			ns.names[lt.Name] = Val{T: ex.vc.Define(f.prefix+"let_"+lt.Name, v)}
			sc = f.scope(ns)
		}
		l.headInvs = nil
		for _, inv := range l.spec.Invariants {
			t := sc.evalBool(inv.Expr)
			ex.vc.Assume(Implies(ns.reach, t), "loop invariant "+l.key)
			l.headInvs = append(l.headInvs, fmt.Sprintf("(assert %s)", Implies(ns.reach, t).S))
		}
		for _, u := range l.spec.Uses {
			ex.vc.AssumeHeavy(Implies(ns.reach, sc.evalBool(u.Expr)), "lemma instance at loop head: "+u.Text)
		}
		if l.spec.Decreases != nil {
			l.measure = ex.vc.Define(f.prefix+"meas_"+l.key, sc.eval(l.spec.Decreases.Expr))
			l.hasMeas = true
		}
	}
	l.headNames = copyNames(ns.names)
	l.headSt = ns.st.clone()
	if l.spec != nil && l.spec.Havoc {
		ex.suppress++
		ex.regions = append(ex.regions, fmt.Sprintf("%s loop %s (havoc: body not verified)", funcKey(f.fn), l.key))
		defer func() { ex.suppress-- }()
		// the body is executed only to obtain the exits; this must happen inside the main queue,
		// so suppression is switched off when the last loop node has been processed. We approximate by
		// running the loop region to completion here.
		sub := &Frame{ex: ex, fn: f.fn, fc: f.fc, rpo: f.rpo, loops: f.loops, loopsOf: f.loopsOf, restrict: l, prefix: f.prefix, depth: f.depth, params: f.params, oldScope: f.oldScope}
		sub.nodes = map[string]*Node{}
		sn := sub.getNode(n.blk, n.ctx)
		sub.loopPQ(sn, &ns)
		f.rets = append(f.rets, sub.rets...)
		for _, e := range sub.exits {
			// re-route the exits into this frame
			fromNode := &Node{blk: e.from, ctx: n.ctx}
			fromNode.ctx = append(append([]int(nil), n.ctx...), make([]int, 8)...)[:len(f.loopsOf[e.from])]
			ex.suppress--
			f.addEdgeTo(fromNode, e)
			ex.suppress++
		}
		return
	}
	f.execBlock(n, ns, true)
}

// addEdgeTo re-adds an exit edge recorded by a restricted sub-run; the target is found from the terminator of e.from.
func (f *Frame) addEdgeTo(from *Node, e Edge) {
	// the exit edge's target was not recorded; recover it: successors of e.from outside the loop
	for _, s := range e.from.Succs {
		inLoop := false
		for _, l := range f.loopsOf[e.from] {
			if l.blocks[s] && l == f.innermostCut(e.from) {
				inLoop = true
			}
		}
		if !inLoop {
			f.addEdge(from, s, e.cond, e.env, e.names, e.st)
			return
		}
	}
}

func (f *Frame) innermostCut(b *ssa.BasicBlock) *Loop {
	ls := f.loopsOf[b]
	for i := len(ls) - 1; i >= 0; i-- {
		if ls[i].unroll == 0 {
			return ls[i]
		}
	}
	return nil
}

func (ex *Exec) markWritten(c *Cell, field int) {
	if ex.written != nil {
		if ex.written[c] == nil {
			ex.written[c] = map[int]bool{}
		}
		ex.written[c][field] = true
	}
}

// dryRun executes the loop body once with arbitrary state and reports the cells written.
func (f *Frame) dryRun(l *Loop, ns nodeState) map[*Cell]map[int]bool {
	ex := f.ex
	// checkpoint
	nItems, nObls := len(ex.vc.items), len(ex.vc.Obls)
	fresh := map[string]int{}
	for k, v := range ex.vc.fresh {
		fresh[k] = v
	}
	declared := map[string]bool{}
	for k := range ex.vc.declared {
		declared[k] = true
	}
	nSortDecls := len(ex.vc.sortDecls)
	_ = nSortDecls
	savedWritten := ex.written
	savedPanics := len(ex.panics)
	savedRegions := len(ex.regions)
	ex.written = map[*Cell]map[int]bool{}
	ex.dry++
	dns := nodeState{reach: ns.reach, env: copyEnv(ns.env), names: copyNames(ns.names), st: State{}}
	for c := range ns.st {
		dns.st[c] = ex.vc.Declare("dry_"+c.Name, c.Sort)
	}
	for _, phi := range l.phis {
		v := f.havocVal(phi.Type(), "dry_"+phi.Name(), TTrue)
		dns.env[phi] = v
		if phi.Comment != "" {
			dns.names[phi.Comment] = v
		}
	}
	dns.reach = ex.vc.Declare("dry_reach", SBool)
	sub := &Frame{ex: ex, fn: f.fn, fc: f.fc, rpo: f.rpo, loops: f.loops, loopsOf: f.loopsOf, restrict: l, prefix: f.prefix + "dry_", depth: f.depth, params: f.params, oldScope: f.oldScope}
	sub.nodes = map[string]*Node{}
	// inner loop objects are shared; save their head state
	type saved struct {
		names map[string]Val
		meas  Term
		has   bool
		reach Term
	}
	sv := map[*Loop]saved{}
	for _, x := range f.loops {
		sv[x] = saved{x.headNames, x.measure, x.hasMeas, x.headReach}
	}
	ctx := make([]int, len(f.loopsOf[l.header]))
	sn := sub.getNode(l.header, ctx)
	sub.loopPQ(sn, &dns)
	for x, s := range sv {
		x.headNames, x.measure, x.hasMeas, x.headReach = s.names, s.meas, s.has, s.reach
	}
	written := ex.written
	ex.dry--
	ex.written = savedWritten
	ex.panics = ex.panics[:savedPanics]
	ex.regions = ex.regions[:savedRegions]
	ex.vc.items = ex.vc.items[:nItems]
	ex.vc.Obls = ex.vc.Obls[:nObls]
	ex.vc.fresh = fresh
	ex.vc.declared = declared
	return written
}

// bindAlias binds the loop's `as` name to its range index (or its first induction phi).
func (f *Frame) bindAlias(l *Loop, names map[string]Val, val func(*ssa.Phi) Val) {
	if l.spec == nil || l.spec.Alias == "" || len(l.phis) == 0 {
		return
	}
	pick := l.phis[0]
	for _, phi := range l.phis {
		if phi.Comment == "rangeindex" {
			pick = phi
			break
		}
	}
	names[l.spec.Alias] = val(pick)
}

// backEdge: invariant preserved, measure decreases.
func (f *Frame) backEdge(l *Loop, e Edge) {
	ex := f.ex
	if ex.dry > 0 {
		return
	}
	base := fmt.Sprintf("%s.loop.%s", f.oblBase(), l.key)
	names := copyNames(e.names)
	env := e.env
	pi := predIndex(l.header, e.from)
	if len(ex.views) > 0 && f.isTop {
		es := nodeState{reach: e.cond, env: env, names: names, st: e.st}
		f.syncViewsForPhis(&es, l.header, pi)
	}
	for _, phi := range l.phis {
		v := f.operand(env, phi.Edges[pi])
		if v.Shared && !l.sharedPhis[phi] {
			ex.fail("alias discipline: loop variable %s becomes a re-sliced (shared) slice on the back edge", phi.Comment)
		}
		if phi.Comment != "" {
			names[phi.Comment] = v
		}
	}
	f.bindAlias(l, names, func(phi *ssa.Phi) Val { return f.operand(env, phi.Edges[pi]) })
	ns := nodeState{reach: e.cond, env: env, names: names, st: e.st}
	if l.spec == nil {
		return
	}
	sc := f.scope(ns)
	sc.head = &Scope{ex: ex, names: l.headNames, st: l.headSt, old: f.oldScope, bound: map[string]Term{}}
	for _, lt := range l.spec.Lets {
		v := sc.eval(lt.Expr)
		ns.names[lt.Name] = Val{T: v}
		sc = f.scope(ns)
		sc.head = &Scope{ex: ex, names: l.headNames, st: l.headSt, old: f.oldScope, bound: map[string]Term{}}
	}
	// step assertions: proved in order, each may use the earlier ones; all are available to the invariants
	minItem := 0
	if l.spec.Isolated {
		minItem = l.headItem
	}
	var proved []string
	only := func(c *Clause) int {
		// `using only; inv(3); stepassert(2)`: nothing but the listed facts (head invariants by number, step
		// assertions) and the type ranges is given to the solver
		for _, u := range c.Using {
			if u.Op == "id" && u.Name == "only" {
				return len(ex.vc.items)
			}
		}
		return minItem
	}
	pick := func(c *Clause) []string {
		// `... using stepassert(2); stepassert(5)` selects which earlier step assertions the clause may use
		var sel []string
		any := false
		for _, u := range c.Using {
			if u.Op == "id" && u.Name == "only" {
				any = true
				continue
			}
			if u.Op == "call" && u.Name == "loopinv" && len(u.Args) == 2 && u.Args[1].Op == "lit" {
				// loopinv(<key or alias of another loop>, k): invariant k of that loop as assumed at its head (for an
				// inner loop that has finished this is its state on exit)
				any = true
				var k int
				fmt.Sscanf(u.Args[1].Name, "%d", &k)
				for _, ol := range f.loops {
					if ol.spec != nil && (ol.key == u.Args[0].Name || ol.spec.Alias == u.Args[0].Name) && k >= 1 && k <= len(ol.headInvs) {
						sel = append(sel, ol.headInvs[k-1])
					}
				}
				continue
			}
			if u.Op == "call" && u.Name == "inv" && len(u.Args) == 1 && u.Args[0].Op == "lit" {
				any = true
				var k int
				fmt.Sscanf(u.Args[0].Name, "%d", &k)
				if k >= 1 && k <= len(l.headInvs) {
					sel = append(sel, l.headInvs[k-1])
				}
				continue
			}
			if u.Op == "call" && u.Name == "stepassert" && len(u.Args) == 1 && u.Args[0].Op == "lit" {
				any = true
				var k int
				fmt.Sscanf(u.Args[0].Name, "%d", &k)
				if k >= 1 && k <= len(proved) {
					sel = append(sel, proved[k-1])
				}
			} else {
				sel = append(sel, fmt.Sprintf("(assert %s)", Implies(e.cond, sc.evalBool(u)).S))
				any = true
			}
		}
		if !any {
			return append([]string(nil), proved...)
		}
		return sel
	}
	for i, as := range l.spec.Asserts {
		t := sc.evalBool(as.Expr)
		ex.obl(&Obligation{Name: fmt.Sprintf("%s.stepassert.%d", base, i+1), Kind: "assert", Props: as.Props, Hyp: e.cond, Goal: t, MinItem: only(as),
			Extra: pick(as), Note: "asserted at the end of the loop body: " + as.Text, Pos: f.pos(l.header.Instrs[0].Pos())})
		proved = append(proved, fmt.Sprintf("(assert %s)", Implies(e.cond, t).S))
	}
	for i, inv := range l.spec.Invariants {
		if !hasProp(inv.Props, ex.prop) {
			continue
		}
		t := sc.evalBool(inv.Expr)
		ex.obl(&Obligation{Name: fmt.Sprintf("%s.step.%d", base, i+1), Kind: "inv-step", Props: inv.Props, Hyp: e.cond, Goal: t, MinItem: only(inv),
			Extra: pick(inv), Note: "invariant preserved: " + inv.Text, Pos: f.pos(l.header.Instrs[0].Pos())})
	}
	if l.hasMeas {
		m := sc.eval(l.spec.Decreases.Expr)
		zero := IntLit64(0, m.Sort)
		ex.obl(&Obligation{Name: base + ".decreases", Kind: "decreases", Props: l.spec.Decreases.Props, Hyp: e.cond,
			Goal: And(leT(zero, l.measure), ltT(m, l.measure)), Note: "measure decreases and is bounded below: " + l.spec.Decreases.Text})
	}
}

// havocVal makes an arbitrary value of a Go type.
func (f *Frame) havocVal(t types.Type, name string, reach Term) Val {
	ex := f.ex
	if tup, ok := t.(*types.Tuple); ok {
		v := Val{}
		for i := 0; i < tup.Len(); i++ {
			v.Tup = append(v.Tup, f.havocVal(tup.At(i).Type(), fmt.Sprintf("%s_%d", name, i), reach))
		}
		return v
	}
	s := ex.vc.SortOf(t)
	c := ex.vc.Declare(name, s)
	ex.assumeRange(c, t, reach)
	return Val{T: c}
}

// assumeRange adds the type invariants of a machine value (integer ranges, non-negative lengths).
func (ex *Exec) assumeRange(t Term, typ types.Type, reach Term) {
	for _, fact := range ex.rangeFacts(t, typ, 3) {
		ex.vc.Assume(fact, "type range")
	}
}

func (ex *Exec) rangeFacts(t Term, typ types.Type, depth int) []Term {
	if depth == 0 || typ == nil {
		return nil
	}
	var out []Term
	switch u := typ.Underlying().(type) {
	case *types.Basic:
		if u.Info()&types.IsInteger != 0 && t.Sort.Kind != KBV {
			lo, hi := intRange(u)
			out = append(out, leT(IntLit(lo, t.Sort), t), leT(t, IntLit(hi, t.Sort)))
		}
	case *types.Array:
		if u.Len() <= 8 {
			for i := 0; i < int(u.Len()); i++ {
				out = append(out, ex.rangeFacts(FieldOf(t, i), u.Elem(), depth-1)...)
			}
		}
	case *types.Struct:
		if t.Sort.Kind != KData || len(t.Sort.Fields) != u.NumFields() {
			break // an opaque library struct
		}
		for i := 0; i < u.NumFields(); i++ {
			out = append(out, ex.rangeFacts(FieldOf(t, i), u.Field(i).Type(), depth-1)...)
		}
	case *types.Slice:
		out = append(out, leT(IntLit64(0, SInt), slLen(t)), leT(slLen(t), IntLit(maxSliceLen, SInt)),
			Implies(slNil(t), Eq(slLen(t), IntLit64(0, SInt))))
		if depth >= 2 {
			// typing invariant of the elements
			el := ex.rangeFacts(Select(slArr(t), Atom("q_ri", SInt)), u.Elem(), 2)
			if len(el) > 0 && !hasNestedQuantifier(el) {
				out = append(out, Term{S: fmt.Sprintf("(forall ((q_ri Int)) (! %s :pattern (%s)))", And(el...).S, Select(slArr(t), Atom("q_ri", SInt)).S), Sort: SBool})
			}
		}
	case *types.Map:
		out = append(out, leT(IntLit64(0, SInt), mpCard(t)), leT(mpCard(t), IntLit(maxSliceLen, SInt)), Implies(mpNil(t), Eq(mpCard(t), IntLit64(0, SInt))))
		{
			// a nil map has no keys
			k := Atom("q_nk", t.Sort.Key)
			out = append(out, Term{S: fmt.Sprintf("(forall ((q_nk %s)) (! (=> %s (not %s)) :pattern (%s)))", t.Sort.Key.Name, mpNil(t).S, Select(mpDom(t), k).S, Select(mpDom(t), k).S), Sort: SBool})
		}
		if depth >= 2 {
			k := Atom("q_rk", t.Sort.Key)
			el := ex.rangeFacts(Select(mpVal(t), k), u.Elem(), 2)
			if len(el) > 0 && !hasNestedQuantifier(el) {
				out = append(out, Term{S: fmt.Sprintf("(forall ((q_rk %s)) (! %s :pattern (%s)))", t.Sort.Key.Name, And(el...).S, Select(mpVal(t), k).S), Sort: SBool})
			}
			// keys are values of the key type
			if kf := ex.rangeFacts(k, u.Key(), 1); len(kf) > 0 {
				out = append(out, Term{S: fmt.Sprintf("(forall ((q_rk %s)) (! (=> %s %s) :pattern (%s)))", t.Sort.Key.Name, Select(mpDom(t), k).S, And(kf...).S, Select(mpDom(t), k).S), Sort: SBool})
			}
			// map of maps: the same two facts for the inner maps, with both keys quantified
			if im, ok := u.Elem().Underlying().(*types.Map); ok && t.Sort.Elem != nil && t.Sort.Elem.Key != nil {
				inner := Select(mpVal(t), k)
				k2 := Atom("q_rk2", t.Sort.Elem.Key)
				var fs []Term
				if el2 := ex.rangeFacts(Select(mpVal(inner), k2), im.Elem(), 2); len(el2) > 0 && !hasNestedQuantifier(el2) {
					out = append(out, Term{S: fmt.Sprintf("(forall ((q_rk %s) (q_rk2 %s)) (! %s :pattern (%s)))", t.Sort.Key.Name, t.Sort.Elem.Key.Name, And(el2...).S, Select(mpVal(inner), k2).S), Sort: SBool})
				}
				if kf2 := ex.rangeFacts(k2, im.Key(), 1); len(kf2) > 0 {
					fs = append(fs, Implies(Select(mpDom(inner), k2), And(kf2...)))
					out = append(out, Term{S: fmt.Sprintf("(forall ((q_rk %s) (q_rk2 %s)) (! %s :pattern (%s)))", t.Sort.Key.Name, t.Sort.Elem.Key.Name, And(fs...).S, Select(mpDom(inner), k2).S), Sort: SBool})
				}
			}
		}
	}
	return out
}

// slice lengths and map sizes are assumed to stay below 2^60 (doubling a length, or adding a few, cannot overflow)
var maxSliceLen = new(big.Int).Lsh(big.NewInt(1), 60)

func hasNestedQuantifier(ts []Term) bool {
	for _, t := range ts {
		if strings.Contains(t.S, "(forall ") {
			return true
		}
	}
	return false
}

func funcKey(fn *ssa.Function) string {
	pkg := ""
	if fn.Pkg != nil {
		pkg = fn.Pkg.Pkg.Path()
	} else if fn.Object() != nil && fn.Object().Pkg() != nil {
		pkg = fn.Object().Pkg().Path()
	}
	pkg = strings.TrimPrefix(pkg, modulePath+"/")
	if pkg == modulePath {
		pkg = "main"
	}
	name := fn.Name()
	if recv := fn.Signature.Recv(); recv != nil {
		rt := recv.Type()
		star := ""
		if p, ok := rt.(*types.Pointer); ok {
			rt = p.Elem()
			star = "*"
		}
		if named, ok := rt.(*types.Named); ok {
			name = fmt.Sprintf("(%s%s).%s", star, named.Obj().Name(), fn.Name())
		}
	}
	return pkg + "." + name
}

func isConstValue(v ssa.Value) bool {
	_, ok := v.(*ssa.Const)
	return ok
}
