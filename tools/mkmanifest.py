#!/usr/bin/env python3
"""Regenerates /verif/MANIFEST.json from the table below (claimed checks) and properties.jsonl."""
import json, subprocess, sys
props=[json.loads(l) for l in open('/verif/properties.jsonl')]
hooks_commits=subprocess.run("git -C /repo log --format=%H --grep='^verif hooks' ",shell=True,capture_output=True,text=True).stdout.split()

CLAIMS={
 "C17": dict(
   text="Every obligation generated from the SSA of morton.ToZ/FromZ/MustToZ for the contracts in morton/contracts_verif.go (result equals a bit-by-bit interleave specification written independently of the code; ok exactly when both arguments fit in 32 bits; MustToZ panics exactly then) and the lemmas round-trip, injectivity, onto, parent = key>>2, children = 4z+i is discharged by an SMT solver over 64-bit bit-vectors: all 2^128 argument pairs, no bound, no sampling.",
   note="Trusted: go/ssa as the semantics of the source, gvc's translation (guarded by the must-fail selftest corpus), the SMT solvers, uint = 64 bits, package variables masks/powersOfTwo have the values their initialiser stores (checked: no other store in the package).",
   technique="contract-based deductive verification: WP/symbolic execution over go/ssa with full loop unrolling + unwinding assertion, QF_BV obligations discharged by z3/cvc5; counterexamples replayed on the real code via go test -overlay",
   design="5 (C17)"),
}
NA={
 # filled below for every property that is not claimed
}
DEFAULT_NA="check not built yet (see DESIGN.md section 1 for the decision per property)"
NA_REASONS={
 "C01":"global geometric theorem about the arrangement of all snapped edges plus the ring-assembly heuristics; not a postcondition or invariant of any one call (DESIGN.md section 7); its code-dependent premise for the routing layer is C02",
 "C04":"Hausdorff/coverage statements about point sets in the plane; no contract within reach (DESIGN.md section 7)",
 "C18":"area preservation through kmpDeduplicate/splitRing/dedupeInnersOuters/matchInnersToPolygons: heuristics whose only specification is the property itself (DESIGN.md section 7)",
 "C07":"relation between two whole executions (determinism under map order, ring reversal); no per-call contract expresses it (DESIGN.md section 7)",
 "C13":"observable lives behind database/sql, cgo SQLite and the file system of a CLI run; outside the verified subset (DESIGN.md section 7)",
 "C16":"encoding/json, marshmallow, validator and defaults are reflection-driven; no contract on them is within reach (DESIGN.md section 7)",
}
checks=[]
for p in props:
    i=p["id"]
    if i in CLAIMS:
        c=CLAIMS[i]
        checks.append({"property_id":i,
          "quick_cmd":f"./bin/gvc check -p {i} -tier quick",
          "thorough_cmd":f"./bin/gvc check -p {i} -tier thorough",
          "evidence_file":f"/verif/evidence/{i}.json",
          "replay_cmd_template":"./bin/gvc replay {path}",
          "engine":"gvc",
          "level_claimed":{"category":"proof","text":c["text"],"design_ref":c["design"]},
          "level_note":c["note"],
          "technique":c["technique"]})
na=[{"property_id":p["id"],"reason":NA_REASONS.get(p["id"],DEFAULT_NA)} for p in props if p["id"] not in CLAIMS]
m={"version":1,
 "setup_cmd":"cd /verif/gvc && GOFLAGS=-mod=mod GOPROXY=off GOSUMDB=off GOTOOLCHAIN=local go build -o /verif/bin/gvc .",
 "hooks":{"guard":"verif","enable":"gvc loads /repo with go/packages and -tags verif; the only guarded files are the comment-only */contracts_verif.go (contracts), which add no code","baseline_off_cmd":"cd /repo && go test -vet=off -count=1 ./...","source_commits":hooks_commits,"add_only":True},
 "engines":[{"name":"gvc","path":"/verif/gvc","serves_properties":sorted(CLAIMS),"kind_free_text":"verification-condition generator over go/ssa of /repo's working tree (symbolic execution with state merging, loops unrolled with unwinding assertions or cut at invariants); contracts in */contracts_verif.go; specification prelude in /verif/spec; obligations discharged by z3 4.8.12 / z3 5.1.0 / cvc5 1.0.3; models replayed on the real code with go test -overlay"}],
 "checks":checks,
 "notes":"See DESIGN.md. known_findings.json lists genuine defects recorded or repaired.",
 "not_applicable":na}
json.dump(m,open('/verif/MANIFEST.json','w'),indent=1)
print("claimed:",sorted(CLAIMS),"n/a:",[x["property_id"] for x in na])
