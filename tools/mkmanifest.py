#!/usr/bin/env python3
"""Regenerates /verif/MANIFEST.json from the table below (claimed checks) and properties.jsonl."""
import json, subprocess, sys
props=[json.loads(l) for l in open('/verif/properties.jsonl')]
hooks_commits=subprocess.run("git -C /repo log --format=%H --grep='^verif hooks' ",shell=True,capture_output=True,text=True).stdout.split()

CLAIMS={
 "C17": dict(
   text="Every obligation generated from the SSA of morton.ToZ/FromZ/MustToZ for the contracts in morton/contracts_verif.go (result equals a bit-by-bit interleave specification written independently of the code; ok exactly when both arguments fit in 32 bits; MustToZ panics exactly then) and the lemmas round-trip, injectivity, onto, parent = key>>2, children = 4z+i is discharged by an SMT solver over 64-bit bit-vectors: all 2^128 argument pairs, no bound, no sampling.",
   note="Trusted: go/ssa as the semantics of the source, gvc's translation (guarded by the must-fail selftest corpus), the SMT solvers, uint = 64 bits, package variables masks/powersOfTwo have the values their initialiser stores (checked: no other store in the package).",
   technique="contract-based deductive verification: WP/symbolic execution over go/ssa with full loop unrolling + unwinding assertion, QF_BV obligations discharged by z3/cvc5; counterexamples replayed on the real code via go test -overlay",
   design="5 (C17)"),
 "C09": dict(
   text="Contracts on InsertPoint, InsertCoord, insertCoord, InsertPolygon and SnapPolygon state, from the property text: a point is accepted exactly when its integer representation lies in the half-open grid [min, min + 2^level*res) on both axes; InsertPolygon returns nil exactly when every vertex of every ring does (quantified loop invariants over rings and vertices), otherwise an OutsideGridError, and a rejected point leaves the index unchanged. Every obligation (postconditions, loop invariants, frame, overflow, bounds) generated from the SSA is discharged for all inputs. The defect F2 (a vertex less than one pixel left of / below the grid was accepted) was found as a failing postcondition, replayed on the real code and repaired.",
   note="Trusted: go/ssa semantics and gvc's translation, the SMT solvers; float64 and the conversion x*1e10 -> int64 over the reals with |ordinate| < 8e8 units; well-formed index (level <= 32, magnitudes below 2^60) as precondition. SnapPolygon itself is proved to panic or (with IgnoreOutsideGrid) return an empty result whenever some vertex is outside the grid, and never to return an empty result otherwise-caused; errors.As is an assumed contract.",
   technique="contract-based deductive verification: VCs from go/ssa with loops cut at quantified invariants, mathematical integers with discharged overflow obligations, z3/cvc5; counterexamples replayed via go test -overlay",
   design="5 (C09)"),
 "C02": dict(
   text="The pixel test is proved exact: lineIntersects(l, e) == exists t in [0,1]: l(t) in the half-open pixel e, for all integer segments and pixels (witness for the positive answer, arbitrary t for the negative one, int64 relaxed to reals; cmpFrac proved over the integers with 128-bit products). findIntersectingQuadrants is proved to return exactly the occupied children of a parent pixel whose half-open square the closed edge meets, without duplicates, from eight geometric lemmas that are themselves proved from the definition of meets. The level-by-level descent snapClosestPoints is proved sound and complete: for every requested level the list it returns holds exactly the stored pixels of that level that the edge meets (ghost set views of the lists, the quadtree's representation invariant as precondition - established by FromTileMatrixSet and proved to be preserved by insertCoord / InsertCoord / InsertPoint / InsertPolygon), and SnapClosestPoints returns their centres position by position; cleanupNewVertices joins consecutive edges without the duplicate. The defect F1 (ties decided wrongly in both directions) was demonstrated on the real code and repaired by an exact integer clipping.",
   note="Trusted: go/ssa semantics and gvc's translation, the SMT solvers (nonlinear real arithmetic: effectively the two z3 versions), bits.Mul64 contract, the two defining axioms of meets (skolemised exists). NOT decided by this check (stated in the evidence): the order of travel of the returned centres (only the bounded stand-in descent-lattice) and the second sentence of the property (concatenation of routed edges through the ring assembly). The descent contracts need a round grid (extent = whole number of deepest pixels). Two bounded lattice cross-checks run as extras and are not counted as proved.",
   technique="contract-based deductive verification: VCs from go/ssa, existential specification handled by witnesses and skolemisation, opaque predicate + proved lemma instances, z3/cvc5",
   design="5 (C02)"),
 "C14": dict(
   text="IsQuadTree is proved (quantified loop invariant over the sorted key list, assumed contracts for maps.Keys / slices.Sort with ghost position functions) to return nil only if every tile matrix is square with square tiles, carries its key as id and no variable widths, and every consecutive pair of the sorted keys differs by one and satisfies same origin, same corner, same tile size, doubled matrix and cell-size ratio within [1.99, 2.01]; so breaking any of these at any level, including the last, is rejected. validateTileMatrixSet is proved to return nil only if IsQuadTree does and matrix 0 exists, and to be panic-free through contracts on DeviationStats, FromTileMatrixSet, MatrixBoundingBox, MatrixSize and ToXYPoint. Two defects were found and repaired: F7 (validation panicked on variable widths) and F8 (an empty variableMatrixWidths list passed IsQuadTree and then panicked).",
   note="Trusted: go/ssa semantics and gvc's translation, SMT solvers, float64 as reals, strconv.Atoi as an uninterpreted function, IsLatLon/axisOrderIsLatLon/PrintWithDecimals as trusted (no panic, deterministic), decoder invariants (origin present, cell size > 0), magnitudes of matrix 0 (macro indexableIf0). The relation pixel size = cell size / 16, root 1x1 and power-of-two tiles are NOT enforced by the code; for the 14 built-in documents they are checked on the data by an exhaustive enumeration labelled exhaustive-data, not proof.",
   technique="contract-based deductive verification: VCs from go/ssa with quantified invariants and ghost functions for library contracts, z3/cvc5; plus a complete enumeration of the embedded documents on the real code (labelled)",
   design="5 (C14)"),
 "C15": dict(
   text="Contracts on FromNative, ToNative, MatrixSize, MatrixBoundingBox and ToXYPoint, proved for all inputs over the reals: FromNative returns a tile exactly when the matrix exists and the point's real tile coordinates lie in [0,W)x[0,H), and then the tile is their truncation; ToNative returns round9 of the tile's top-left corner for both corner-of-origin conventions; a missing matrix gives no tile. Two lemmas over these contracts, also proved: every point at least 1e-9 inside tile (x,y) (measured from the rounded corners ToNative gives for it and for its right / lower neighbour) is addressed by FromNative to exactly (x,y), for top-left and for bottom-left origins. All three functions obtain x,y order from the same ToXYPoint whose swap decision depends on the tile matrix set only.",
   note="Trusted: go/ssa semantics and gvc's translation, SMT solvers; float64 treated as real numbers (IEEE rounding not modelled); IsLatLon / axisOrderIsLatLon are trusted to be deterministic and panic-free, the EPSG axis table is data (a wrong table entry or a wrong branch inside IsLatLon is NOT detected); points less than 9e18 tiles from the origin. Not decided: bounding box == span of the corner tiles exactly (double rounding at ties), points within 1e-9 of a border.",
   technique="contract-based deductive verification: VCs from go/ssa over reals with to_int for truncation/rounding, property-level lemmas over the contracts, z3/cvc5",
   design="5 (C15)"),
 "C08": dict(
   text="First sentence, proved for all inputs: SnapPolygon's result is keyed by requested tile matrix ids only (every key is an element of tmIDs), each key carries exactly what addPointsAndSnap computed for that id's level (level = id + log2(tile width) + 4, proved injective through tileMatrixIDsByLevels), and every level addPointsAndSnap returns is a requested one (loop invariants over the shared levelMap from which levels are deleted). Per call it is also proved that the list of pixels the descent hands out for a level is exactly the set of stored pixels of that level met by the edge (contracts of C02), and the verifier's alias discipline rejects any append to a slice shared between levels. The second sentence (same geometry whether a tile matrix is requested alone or with others) relates two executions and is NOT decided; a bounded stand-in (descent on a 4x4 grid for several level combinations) runs as an extra.",
   note="Trusted: go/ssa semantics and gvc's translation, SMT solvers, slices.Max / errors.As / maps.Keys assumed contracts, ring assembly leaves (cleanupNewRing, dedupeInnersOuters, matchInnersToPolygons, outersToPolygons, ensureCorrectWindingOrder) trusted for lengths only. Preconditions of SnapPolygon's contract: ids in [0,1000], indexable tile matrix set with level <= 32, round grid, |ordinate| < 2e8.",
   technique="contract-based deductive verification: VCs from go/ssa, quantified loop invariants over maps and map-range iterators, z3/cvc5; bounded stand-in labelled",
   design="5 (C08)"),
 "C05": dict(
   text="Proved for all inputs (under SnapPolygon's preconditions): no tile matrix id is mapped to an empty list - a level at which the shell collapses is deleted from the level map and therefore absent - and only requested ids are present; addPointsAndSnap returns a non-nil map keyed by requested levels whose lists are all non-empty, with or without keep-points-and-lines. The statements about the rings themselves (shell first, orientation, closure, no repeated vertices, at least three vertices) live in the ring assembly, which is outside the verifier's reach and NOT decided; the known defect F4 of the property statement is in that part.",
   note="Trusted: as for C08. The leaves outersToPolygons (one polygon per outer ring) and matchInnersToPolygons (never fewer polygons than given) are trusted for exactly these length facts; a change inside them is not detected.",
   technique="contract-based deductive verification: VCs from go/ssa with quantified invariants over maps, z3/cvc5",
   design="5 (C05)"),
 "C03": dict(
   text="Proved chain, for all inputs under the stated preconditions: FromTileMatrixSet builds the index on the bounding box of tile matrix 0 with level = id + log2(tile width) + 4 and integer pixel size span / 2^level; every stored pixel of level l carries the extent and centre min + k*span_l (+ span_l/2) of the grid formula (invariant indexGrid, established by FromTileMatrixSet and proved to be preserved by insertCoord - loop invariants 'every stored pixel is the grid's function of its level and key' and 'the parent of a stored pixel is stored', products kept opaque and revealed through arithmetic lemmas - and by InsertCoord / InsertPoint / InsertPolygon); SnapClosestPoints hands out, position by position, centre/1e10 of stored pixels of the requested level met by the edge; tileMatrixIDsByLevels and SnapPolygon map levels back to exactly the requested ids. MatrixBoundingBox / MatrixSize / ToXYPoint are proved against the cell size arithmetic (C15). NOT decided: that the ring assembly only rearranges or drops those coordinates, and the second sentence (deviation bound for grids that do not divide evenly).",
   note="Trusted: as for C08; float64 as reals (centre/1e10 exact). A bounded stand-in (descent on a 4x4 grid against an exact oracle) runs as an extra and is not counted as proved.",
   technique="contract-based deductive verification: VCs from go/ssa, representation invariant as quantified macro over nested maps, z3/cvc5",
   design="5 (C03)"),
 "C06": dict(
   text="For the routing layer - SnapPolygon, FromTileMatrixSet, MatrixBoundingBox, tileMatrixIDsByLevels, InsertPolygon, InsertPoint, InsertCoord, insertCoord (MustToZ never panics for level <= 32), addPointsAndSnap's own statements, SnapClosestPoints, snapClosestPoints, findIntersectingQuadrants, lineIntersects, cmpFrac, getQuadrantZs, cleanupNewVertices, AsKeys, LastElement - and for the helpers of the ring assembly kmpTable, kmpSearch, kmpSearchAll, RemoveSequences, ReverseClone, DeleteFromSliceByIndex, LastMatch, ringsAreEqual, ensureCorrectWindingOrder, outersToPolygons, every index, slice, nil-map, division, conversion, type-assertion and overflow obligation generated from the SSA is discharged and every loop has a proved variant (decreases) or is a range loop, so no panic and no endless loop originates there for any in-grid polygon, except at the explicitly modelled panic sites: SnapPolygon's panic for a vertex outside the grid (proved to be the only case, C09) and whatever the bodies of the ring assembly do (bounded stand-ins only, labelled). The guard panicNoPointsFoundForVertices is proved unreachable: InsertPolygon is proved to leave the pixel of every vertex stored on every level (insertCoord stores it per level and never removes anything), the descent is proved complete, the start of an edge is a witness for 'the edge meets its pixel', so every requested level gets a non-empty list (obligation snap.addPointsAndSnap.nopanic.cleanupNewVertices). Defect F9 (SnapPolygon panicked on overlapping removal ranges of the de-duplication) was found by the stand-in, repaired (RemoveSequences, now proved total) and its demonstration is re-run on every check. Known finding F6 (pixel level above 32 panics) is reported as KNOWN-FINDING.",
   note="Trusted: as for C08. The bodies of kmpDeduplicate, splitRing, dedupeInnersOuters, matchInnersToPolygons are trusted leaves whose panic is treated as possible by callers; they are not under contract (bounded stand-ins only). No complexity bound is proved.",
   technique="contract-based deductive verification (safety and termination obligations from go/ssa, z3/cvc5) + bounded stand-in for the ring assembly (labelled bounded) + demonstration of the recorded defect",
   design="5 (C06)"),
}
NA={
 # filled below for every property that is not claimed
}
DEFAULT_NA="check not built yet (see DESIGN.md section 1 for the decision per property)"
NA_REASONS={
 "C01":"global geometric theorem about the arrangement of all snapped edges plus the ring-assembly heuristics; not a postcondition or invariant of any one call (DESIGN.md section 7); its code-dependent premise for the routing layer is C02",
 "C04":"Hausdorff/coverage statements about point sets in the plane; no contract within reach (DESIGN.md section 7)",
 "C18":"area preservation through kmpDeduplicate/splitRing/dedupeInnersOuters/matchInnersToPolygons: heuristics whose only specification is the property itself (DESIGN.md section 7)",
 "C07":"relation between two whole executions (determinism under map order, ring reversal); no per-call contract expresses it (DESIGN.md section 7)",
 "C13":"observable lives behind database/sql, cgo SQLite and the file system of a CLI run; outside the verified subset (DESIGN.md section 7)",
 "C10":"fan-out of features over goroutines and unbuffered channels with function values, interface type switches and a WaitGroup: the channel / goroutine extension of the verifier (DESIGN.md 3.9) was not built, so no contract within reach expresses 'every feature reaches every target exactly once, in order'; not claimed with a weaker technique",
 "C11":"termination and ordering of a pipeline of goroutines (close / wait protocol, absence of leaks and races) for all schedules: whole-history property over concurrency, outside what contracts on sequential code decide; the channel extension of DESIGN.md 3.9 was not built",
 "C12":"the rows, spatial index, extent and schema live behind database/sql and cgo SQLite (outside the verified subset); the one clause within reach in principle (WriteFeatures hands every received feature to writeFeatures exactly once for any page size) needs channel receive histories, which the verifier does not model (DESIGN.md 3.9 not built)",
 "C16":"encoding/json, marshmallow, validator and defaults are reflection-driven; no contract on them is within reach (DESIGN.md section 7)",
}
checks=[]
for p in props:
    i=p["id"]
    if i in CLAIMS:
        c=CLAIMS[i]
        checks.append({"property_id":i,
          "quick_cmd":f"./bin/gvc check -p {i} -tier quick",
          "thorough_cmd":f"./bin/gvc check -p {i} -tier thorough",
          "evidence_file":f"/verif/evidence/{i}.json",
          "replay_cmd_template":"./bin/gvc replay {path}",
          "engine":"gvc",
          "level_claimed":{"category":"proof","text":c["text"],"design_ref":c["design"]},
          "level_note":c["note"],
          "technique":c["technique"]})
na=[{"property_id":p["id"],"reason":NA_REASONS.get(p["id"],DEFAULT_NA)} for p in props if p["id"] not in CLAIMS]
m={"version":1,
 "setup_cmd":"cd /verif/gvc && GOFLAGS=-mod=mod GOPROXY=off GOSUMDB=off GOTOOLCHAIN=local go build -o /verif/bin/gvc .",
 "hooks":{"guard":"verif","enable":"gvc loads /repo with go/packages and -tags verif; the only guarded files are the comment-only */contracts_verif.go (contracts), which add no code","baseline_off_cmd":"cd /repo && go test -vet=off -count=1 ./...","source_commits":hooks_commits,"add_only":True},
 "engines":[{"name":"gvc","path":"/verif/gvc","serves_properties":sorted(CLAIMS),"kind_free_text":"verification-condition generator over go/ssa of /repo's working tree (symbolic execution with state merging, loops unrolled with unwinding assertions or cut at invariants); contracts in */contracts_verif.go; specification prelude in /verif/spec; obligations discharged by z3 4.8.12 / z3 5.1.0 / cvc5 1.0.3; models replayed on the real code with go test -overlay"}],
 "checks":checks,
 "notes":"See DESIGN.md. known_findings.json lists genuine defects recorded or repaired.",
 "not_applicable":na}
json.dump(m,open('/verif/MANIFEST.json','w'),indent=1)
print("claimed:",sorted(CLAIMS),"n/a:",[x["property_id"] for x in na])
