#!/usr/bin/env python3
"""Prints the markdown table of seeded changes (DESIGN.md section 0.6) from /verif/seeded/*/meta.json."""
import json, os
rows = []
for name in sorted(os.listdir("/verif/seeded")):
    mp = os.path.join("/verif/seeded", name, "meta.json")
    if not os.path.exists(mp):
        continue
    m = json.load(open(mp))
    if m.get("detected"):
        obl = m.get("failed_obligations", [])
        # most telling first: bounded stand-ins with a failing input, then postconditions / panics clauses, then the rest
        rank = lambda o: (0 if o.startswith("extra-") else 1 if ("_post_" in o or "_panics_" in o) else 2 if "_step_" in o or "_pre_" in o else 3, o)
        obl = sorted(obl, key=rank)
        how = ", ".join(obl[:3]) + (" …" if len(obl) > 3 else "")
        res = "caught (" + ("failing input replayed" if m.get("confirmed_by_replay") else "no-failing-input-found") + "): " + how
    else:
        res = "NOT caught: " + m.get("undetectable_because", m.get("check_run", ""))
    rows.append(f"| {name} | {m.get('needs_to_manifest','')} | {res} |")
print("| change | what it needs to show | outcome of the property's quick check |")
print("|--------|-----------------------|----------------------------------------|")
print("\n".join(rows))
