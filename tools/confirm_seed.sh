#!/bin/bash
# usage: confirm_seed.sh <name> [srcdir]   e.g. confirm_seed.sh C17-1
# Confirms in a scratch worktree that a seeded change compiles, passes the existing suite, and that its
# demonstration fails with the change and passes without it. On success copies it to /verif/seeded/<name>/.
export GOFLAGS=-mod=mod GOPROXY=off GOSUMDB=off GOTOOLCHAIN=local
name=$1; src=${2:-/tmp/seeded-out/$name}
wt=$(mktemp -d /tmp/confirm-XXXX); rmdir $wt
base=${BASE:-HEAD}
git -C /repo worktree add -q --detach $wt $base || exit 2
cleanup(){ git -C /repo worktree remove --force $wt; }
trap cleanup EXIT
demo=$(cat $src/demo_path.txt | tr -d '\n ')
log=$(mktemp)
cd $wt
r_apply=ok; git apply $src/patch.diff || r_apply=FAIL
r_build=ok; go build ./... >>$log 2>&1 || r_build=FAIL
r_suite=ok; go test -vet=off -count=1 ./... >>$log 2>&1 || r_suite=FAIL
cp $src/$(basename $demo) $wt/$demo
pkg=./$(dirname $demo)
r_demo_with=FAILS; go test -vet=off -count=1 -run 'Seeded|Demo|seeded|demo' $pkg >>$log 2>&1 && r_demo_with=passes
# the demo run may have touched go.mod (extra imports)
git checkout -- . 2>/dev/null
cp $src/$(basename $demo) $wt/$demo
r_demo_without=passes; go test -vet=off -count=1 -run 'Seeded|Demo|seeded|demo' $pkg >>$log 2>&1 || r_demo_without=FAILS
rm -f $wt/$demo
echo "$name apply=$r_apply build=$r_build suite=$r_suite demo_with_change=$r_demo_with demo_without=$r_demo_without"
if [ "$r_apply$r_build$r_suite$r_demo_with$r_demo_without" = "okokokFAILSpasses" ]; then
  mkdir -p /verif/seeded/$name
  cp $src/patch.diff $src/$(basename $demo) $src/demo_path.txt /verif/seeded/$name/
  [ -f $src/notes.md ] && cp $src/notes.md /verif/seeded/$name/
  echo confirmed > /verif/seeded/$name/.confirmed
else
  tail -30 $log
fi
rm -f $log
