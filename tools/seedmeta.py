#!/usr/bin/env python3
"""For every confirmed seeded change under /verif/seeded: apply it to a scratch worktree of /repo's HEAD, run the quick
check of the property it breaks (if claimed) against that worktree (gvc check -repo), and record the outcome in
meta.json. (The registered commands run against /repo; -repo only redirects the same check to the scratch copy so
that /repo stays free for other work.)"""
import json, os, subprocess, sys, re
NEEDS = {
 "C17-1": "both arguments above 2^32 and equal in their upper 32 bits (x ^ y instead of x | y in the range check)",
 "C17-2": "an ordinate exactly 65536 with the other at most 65536 (fast path guard <= instead of <)",
 "C17-3": "an ordinate >= 2^29 (one wrong nibble in masks[1]; needs level > 29)",
 "C09-1": "a vertex between 0 and 1 deepest pixel left of / below the grid (floorDiv rounds down only when the quotient is already negative)",
 "C09-2": "a polygon with an outside vertex in a ring that is not the last one (error overwritten by the next ring)",
 "C09-3": "a vertex exactly on, or less than a pixel beyond, the right/top border (inclusive upper bound)",
 "C02-1": "an up-right edge through / ending at a grid corner with the pixel up-left or down-right of it occupied (tie rule loses hi.closed)",
 "C02-2": "an edge ending inside a 2x2 block and starting outside in the diagonally opposite infinite quadrant (certain flag copied)",
 "C02-3": "requesting level L but not L+1 with L <= deepest-2 (parents slice recycled for the next level)",
 "C02-4": "a diagonal crossing where both side children are occupied and the edge misses the x-adjacent one (mutex set without a hit)",
 "C14-1": "a non-root matrix with only its width (matrix or tile) changed (squareness checked for the root only)",
 "C14-2": "a cell-size error of several percent on a deep level (absolute instead of relative tolerance)",
 "C14-3r": "a tile matrix set without matrix 0 (DeviationStats error only logged; rebased onto the repaired validateTileMatrixSet)",
 "C15-1": "a matrix taller than wide and a tile row > MatrixWidth (Y compared with MatrixWidth)",
 "C15-2r": "deep matrices of degree-based sets (tile size rounded before multiplying; rebased)",
 "C15-3": "WorldCRS84Quad only: OGC authority compared after lower-casing (inside IsLatLon, which the check trusts)",
 "C03-1": "several ids requested with one at least two below the deepest (result slices recycled in snapClosestPoints)",
 "C03-2": "a built-in set with northing/easting axis order (raw origin y used in MatrixBoundingBox)",
 "C03-3": "two or more ids and a ring whose snapped version more than doubles in points (shared backing array in addPointsAndSnap)",
 "C08-1": "two or more ids and a ring whose snapped version exceeds 2*ringLen points (shared buffer without capacity limit)",
 "C08-2": "multi-level request, polygon with a hole, outer ring too small on some but not all levels (break instead of continue)",
 "C12-1": "an empty geometry at index % pagesize == 0 (extent initialised from feature 0 of a page only)",
 "C12-2": "a GEOMETRYCOLLECTION table (loop bound < instead of <=)",
 "C05-1": "negative coordinates, pixel centre not surviving the float round trip, ring through it twice",
 "C05-2": "an unsplit self-crossing ring whose net area changes sign through rounding",
 "C05-3": "a clockwise ring with no surrounding shell (list of rings reversed instead of the ring)",
 "C10-1": "a multipolygon with a part that splits into two or more polygons (hoisted map lookup)",
 "C10-2": "a polygon that splits into exactly two polygons (switch boundary)",
 "C10-3": "two targets and a multipolygon vanishing on one tile matrix only (typed nil)",
 "C11-1": "non-polygon features and two or more tile matrices (one wrapper reused: data race)",
 "C11-2": "an empty table (wg.Add moved into the goroutine)",
 "C11-3": "a target busy when the router has a feature for it (send moved to a helper goroutine)",
 "C12-3": "more features than the page size (the feature that arrives while the page is full is never appended)",
 "C12-4": "at least as many features as the page size (the page buffer is never emptied: features[0:] instead of features[:0])",
 "C12-5": "a feature count that is a positive multiple of the page size (the last page is written again when the channel closes)",
 "C05-4": "a hole with no surrounding shell (promoted to a polygon of its own without being reversed)",
 "C05-5": "a ring whose snapped version is [a b a] (closing vertex only stripped for rings longer than 3)",
 "C05-6": "a polygon that partly collapses, KeepPointsAndLines off (the option is no longer consulted when collecting points and lines)",
 "C05-7": "a polygon that collapses on one of several requested tile matrices (the result is filled by ranging over all requested levels: nil list instead of absent)",
 "C06-4": "two or more tile matrices, an outer ring that collapses on the coarse level only and a further ring, KeepPointsAndLines off (segment loop ranges over the requested levels instead of the live level set)",
 "C06-5": "level 32 (WebMercatorQuad id 20) and a vertex in the last pixel column or row (ToZ range check < instead of <=)",
 "C06-6": "a spike near the end of a ring that snapping has filled with extra points (corpus sliced past the ring's length)",
 "C14-4": "a tile matrix set whose ids are consecutive but do not start at 0 (new RootTMID helper replaces the hard-coded id 0; the missing-matrix-0 error of DeviationStats disappears)",
 "C09-4": "an outside vertex that directly follows an inside vertex within about 1e-6 relative distance (InsertPolygon skips 'repeated' vertices with a tolerant comparison)",
 "C03-4": "EuropeanETRS89_LAEAQuad ids 11, 14, 15 and many UPS ids (level derived from the float ratio of cell sizes, truncated: one level too shallow)",
 "C15-4": "a lat/lon-ordered set and a second call on the same tile matrix (helper swaps the shared PointOfOrigin array in place through the pointer)",
 "C06-7": "a polygon with two or more inner rings, one outside every outer ring and a later one with a vertex in or on it (match counter sized once, polygons grown inside the loop: index out of range in matchInnersToPolygons)",
 "C06-8": "two rings of the same kind that snap to the same vertices but start at different corners (ringsAreEqual: hand-wrapped index with j > ringLen instead of >=)",
 "C02-5": "a short edge (dx and dy below 0.43 units in absolute value) and a hot pixel holding neither end point (cmpFrac fast path: plain int64 products wrap between 2^63 and 2^64)",
 "C08-3": "two or more tile matrices with the deepest one having an odd integer pixel size (centroid offset computed as 2^(d-l) * (res/2) instead of (2^(d-l) * res)/2)",
 "C17-4": "x within 32 bits and y not (ok shadowed in the refactored ToZ: the result reports the range check of x only; MustToZ no longer panics)",
 "C06-1": "a ring starting with a zig-zag whose forward matches outnumber the reverse ones by two or more (removal range computed from the wrong count: slice bounds out of range)",
 "C06-2": "a zig-zag directly followed by another step back (scan resumes on the last removed vertex: overlapping removal ranges)",
 "C06-3": "a zig-zag long enough for a second corpus expansion (corpus grows by 3 segments, its end marker by 2)",
}
UNDETECTABLE = {
 "C12-1": "the change is in writeFeatures (extent of a page), behind database/sql and SQLite: outside the verified subset; the C12 claim covers the paging clause of WriteFeatures only and says so",
 "C12-2": "the change is in the table / geometry-type handling of the database side, outside the verified subset; the C12 claim covers the paging clause of WriteFeatures only and says so",
 "C06-1": "produced and confirmed against the tree before the repair of F9, where the change made SnapPolygon panic (slice bounds out of range in RemoveSequences) and the bounded stand-in ring-assembly-small-alphabet caught it with a failing input; since the repair (fa24396) RemoveSequences tolerates the overlapping / out-of-range removal range the change produces, SnapPolygon returns normally, and what is left is a different de-duplication result (area / crossing properties C18, C01, not applicable here): no longer a violation of C06 on the current tree",
 "C06-2": "produced and confirmed against the tree before the repair of F9, where the change made SnapPolygon panic (slice bounds out of range in RemoveSequences) and the bounded stand-in ring-assembly-small-alphabet caught it with a failing input; since the repair (fa24396) RemoveSequences tolerates the overlapping / out-of-range removal range the change produces, SnapPolygon returns normally, and what is left is a different de-duplication result (area / crossing properties C18, C01, not applicable here): no longer a violation of C06 on the current tree",
 "C06-3": "produced and confirmed against the tree before the repair of F9, where the change made SnapPolygon panic (slice bounds out of range in RemoveSequences) and the bounded stand-in ring-assembly-small-alphabet caught it with a failing input; since the repair (fa24396) RemoveSequences tolerates the overlapping / out-of-range removal range the change produces, SnapPolygon returns normally, and what is left is a different de-duplication result (area / crossing properties C18, C01, not applicable here): no longer a violation of C06 on the current tree",
 "C05-1": "the change is in snap.isHitMultiple (repeated-vertex lookup), part of the ring assembly, which is outside the verified functions; the function it changes (isHitMultiple) was replaced by the repair of F4 (5f44606), so the patch no longer applies; before that repair it needed negative coordinates whose pixel centres do not survive the float round trip",
 "C05-2": "the change is in snap.splitRing (orientation of unsplit rings), part of the ring assembly, outside the verified functions; orientation is listed as not decided in the C05 claim",
 "C05-3": "the change is in snap.matchInnersToPolygons (a trusted leaf: only 'never fewer polygons than given' is assumed of it); orientation of rings is listed as not decided in the C05 claim",
 "C08-2": "the change drops the holes of a polygon as soon as one level has collapsed; which rings end up in a level's list is decided by the ring assembly (trusted leaves, no functional specification of the per-level ring lists); the C08 claim covers the keys and the id <-> level mapping only and says so",
}
claimed = {c["property_id"] for c in json.load(open("/verif/MANIFEST.json"))["checks"]}
only = sys.argv[1:]
WT = "/tmp/wt-seedmeta-%d" % os.getpid()
subprocess.run(f"git -C /repo worktree remove --force {WT}", shell=True, capture_output=True)
r = subprocess.run(f"git -C /repo worktree add -q --detach {WT} HEAD", shell=True, capture_output=True, text=True)
if r.returncode != 0:
    sys.exit("cannot create scratch worktree: " + r.stderr)
import atexit
atexit.register(lambda: subprocess.run(f"git -C /repo worktree remove --force {WT}", shell=True, capture_output=True))
for name in sorted(os.listdir("/verif/seeded")):
    d = os.path.join("/verif/seeded", name)
    if not os.path.isdir(d) or (only and name not in only):
        continue
    prop = name.split("-")[0]
    meta = {"name": name, "property": prop, "needs_to_manifest": NEEDS.get(name, ""),
            "confirmed": "tools/confirm_seed.sh: applies, builds, existing suite passes, demonstration fails with the change and passes without it",
            "demonstration": open(os.path.join(d, "demo_path.txt")).read().strip()}
    if prop in claimed:
        r = subprocess.run(f"git -C {WT} apply {d}/patch.diff", shell=True, capture_output=True, text=True)
        if r.returncode != 0:
            meta["check_run"] = "patch does not apply to the current /repo HEAD: " + r.stderr.strip()[:200]
            meta["detected"] = False
            meta["undetectable_because"] = UNDETECTABLE.get(name, "the patch no longer applies to the current tree")
        else:
            cmd = f"./bin/gvc check -p {prop} -no-evidence -q"
            out = subprocess.run(cmd + f" -repo {WT} -replays /tmp/seedmeta-replays-%d" % os.getpid(), shell=True, cwd="/verif", capture_output=True, text=True)
            subprocess.run(f"git -C {WT} checkout -- . && git -C {WT} clean -fdq", shell=True)
            viol = [l for l in out.stdout.split("\n") if l.startswith("VIOLATION")]
            obls = sorted({re.sub(r".*replays[^/]*/[A-Z0-9]+-(.*)\.json.*", r"\1", v) for v in viol})
            meta["check_run"] = cmd
            meta["exit_code"] = out.returncode
            meta["detected"] = out.returncode == 1 and bool(viol)
            meta["failed_obligations"] = obls
            meta["confirmed_by_replay"] = any("no-failing-input-found" not in v for v in viol)
            if not meta["detected"] and name in UNDETECTABLE:
                meta["undetectable_because"] = UNDETECTABLE[name]
    else:
        meta["check_run"] = f"property {prop} is not claimed (see MANIFEST not_applicable): no check to run"
        meta["detected"] = False
        meta["undetectable_because"] = "the property is listed under not_applicable in MANIFEST.json: no check exists that could detect it"
    json.dump(meta, open(os.path.join(d, "meta.json"), "w"), indent=1)
    print(name, meta.get("detected"), meta.get("failed_obligations", "")[:3] if isinstance(meta.get("failed_obligations"), list) else "")
