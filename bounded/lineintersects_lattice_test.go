package pointindex

// Bounded cross-check (NOT a proof; used to demonstrate finding F1 and as a sanity check of the specification):
// lineIntersects against "the closed segment meets the half-open box" decided with exact rationals,
// for every segment with endpoints on the quarter-pixel lattice of a 4x4 window around a unit pixel.

import (
	"fmt"
	"math/big"
	"testing"

	"github.com/pdok/texel/intgeom"
)

// meetsExact: exists t in [0,1] with minX <= x(t) < maxX and minY <= y(t) < maxY (exact rational interval clipping)
func meetsExact(l intgeom.Line, e intgeom.Extent) bool {
	type bnd struct {
		v      *big.Rat
		closed bool
	}
	lo := bnd{big.NewRat(0, 1), true}
	hi := bnd{big.NewRat(1, 1), true}
	for ax := 0; ax < 2; ax++ {
		p, q := l[0][ax], l[1][ax]
		d := q - p
		mn, mx := e[ax], e[ax+2]
		if d == 0 {
			if p < mn || p >= mx {
				return false
			}
			continue
		}
		tMin := big.NewRat(mn-p, d) // x(t) = mn
		tMax := big.NewRat(mx-p, d) // x(t) = mx
		var l2, h2 bnd
		if d > 0 {
			l2, h2 = bnd{tMin, true}, bnd{tMax, false}
		} else {
			l2, h2 = bnd{tMax, false}, bnd{tMin, true}
		}
		if c := l2.v.Cmp(lo.v); c > 0 || c == 0 && !l2.closed {
			lo = l2
		}
		if c := h2.v.Cmp(hi.v); c < 0 || c == 0 && !h2.closed {
			hi = h2
		}
	}
	c := lo.v.Cmp(hi.v)
	return c < 0 || c == 0 && lo.closed && hi.closed
}

func TestGvcLineIntersectsLattice(t *testing.T) {
	const q = 4  // lattice steps per pixel
	const w = 4  // window of w x w pixels; the tested pixel is (1,1)..(2,2)
	e := intgeom.Extent{1 * q, 1 * q, 2 * q, 2 * q}
	n := w*q + 1
	bad, total := 0, 0
	var first intgeom.Line
	for x1 := 0; x1 < n; x1++ {
		for y1 := 0; y1 < n; y1++ {
			for x2 := 0; x2 < n; x2++ {
				for y2 := 0; y2 < n; y2++ {
					l := intgeom.Line{{int64(x1), int64(y1)}, {int64(x2), int64(y2)}}
					total++
					if lineIntersects(l, e) != meetsExact(l, e) {
						if bad == 0 {
							first = l
						}
						bad++
					}
				}
			}
		}
	}
	fmt.Printf("GVC-DATA {\"evaluations\": %d, \"mismatches\": %d, \"what\": \"lineIntersects vs exact half-open clipping on the quarter-pixel lattice\"}\n", total, bad)
	if bad > 0 {
		t.Errorf("lineIntersects differs from the half-open specification on %d of %d lattice segments, first: %v (spec says %v)", bad, total, first, meetsExact(first, e))
	}
}
