package snap

// Bounded stand-in (NOT a proof) for the ring assembly, which is outside the verifier's reach (C06, and the
// element clause of C03): the real cleanupNewRing (= kmpDeduplicate + splitRing) and kmpDeduplicate are run on EVERY
// ring of length 0..L over an alphabet of k pixel centres (k = 3: L = 15 quick / 17 thorough; k = 4: L = 10 / 11; without equal neighbours),
// with the hit-multiple map computed the way the index computes it (centres visited more than once), as outer and
// as inner ring. Checked per input: no panic, returns within the time limit, and every vertex of every returned
// ring is one of the input vertices (the assembly may only rearrange or drop vertices).
// Longer pseudo-random zig-zag rings (repeated back-and-forth runs, the patterns kmpDeduplicate is written for)
// and word rings (a short random word repeated and reversed) follow. Nothing here counts as proved.

import (
	"fmt"
	"io"
	"log"
	"math/rand"
	"os"
	"strconv"
	"testing"
	"time"

	"github.com/pdok/texel/intgeom"
)

func gvcAssembleOne(t *testing.T, ring [][2]float64, isOuter bool) bool {
	in := append([][2]float64{}, ring...)
	counts := map[[2]float64]int{}
	for _, p := range ring {
		counts[p]++
	}
	hitMultiple := map[intgeom.Point][]int{}
	for p, n := range counts {
		if n > 1 {
			hitMultiple[intgeom.FromGeomPoint(p)] = []int{0}
		}
	}
	type out struct {
		rings [][][2]float64
		pnc   any
	}
	done := make(chan out, 1)
	go func() {
		var o out
		defer func() { o.pnc = recover(); done <- o }()
		a, b, c := cleanupNewRing(ring, isOuter, hitMultiple, 0)
		o.rings = append(append(append(o.rings, a...), b...), c...)
		d := kmpDeduplicate(append([][2]float64{}, in...))
		o.rings = append(o.rings, d)
	}()
	select {
	case o := <-done:
		if o.pnc != nil {
			t.Errorf("GVC-FAIL panic %v on ring %v isOuter=%v", o.pnc, in, isOuter)
			return false
		}
		for _, r := range o.rings {
			for _, p := range r {
				if counts[p] == 0 {
					t.Errorf("GVC-FAIL vertex %v in a returned ring is not a vertex of the input ring %v isOuter=%v", p, in, isOuter)
					return false
				}
			}
		}
		return true
	case <-time.After(5 * time.Second):
		t.Errorf("GVC-FAIL no result within 5s on ring %v isOuter=%v", in, isOuter)
		return false
	}
}

func TestGvcC06RingAssembly(t *testing.T) {
	log.SetOutput(io.Discard)
	defer log.SetOutput(os.Stderr)
	thorough := os.Getenv("VERIF_TIER") == "thorough"
	seed, _ := strconv.Atoi(os.Getenv("VERIF_SEED"))
	pts := [][2]float64{{0.5, 0.5}, {1.5, 0.5}, {1.5, 1.5}, {0.5, 1.5}}
	fails := 0
	for _, cfg := range []struct{ k, quick, thorough int }{{3, 15, 17}, {4, 10, 11}} {
		maxLen := cfg.quick
		if thorough {
			maxLen = cfg.thorough
		}
		evals := 0
		ring := make([][2]float64, 0, maxLen)
		var rec func()
		rec = func() {
			if fails > 3 {
				return
			}
			for _, outer := range []bool{true, false} {
				evals++
				if !gvcAssembleOne(t, append([][2]float64{}, ring...), outer) {
					fails++
				}
			}
			if len(ring) == maxLen {
				return
			}
			for i := 0; i < cfg.k; i++ {
				if n := len(ring); n > 0 && ring[n-1] == pts[i] {
					continue // the routing layer never emits two equal consecutive vertices (cleanupNewVertices)
				}
				ring = append(ring, pts[i])
				rec()
				ring = ring[:len(ring)-1]
			}
		}
		rec()
		fmt.Printf("GVC-DATA %s\n", gvcJSON2(map[string]any{"part": "every ring without equal neighbours", "alphabet": cfg.k, "max_ring_length": maxLen, "evaluations": evals}))
	}
	// zig-zag rings: concatenations of runs a b a b ... and reversed runs over 6 points
	rnd := rand.New(rand.NewSource(int64(seed) + 7))
	six := append(append([][2]float64{}, pts...), [2]float64{2.5, 0.5}, [2]float64{2.5, 1.5})
	n := 100000
	if thorough {
		n = 800000
	}
	evals := 0
	for i := 0; i < n && fails <= 3; i++ {
		var ring [][2]float64
		for len(ring) < 4+rnd.Intn(28) {
			seg := make([][2]float64, 2+rnd.Intn(3))
			for j := range seg {
				seg[j] = six[rnd.Intn(len(six))]
			}
			reps := 1 + rnd.Intn(4)
			for r := 0; r < reps; r++ {
				for j := range seg {
					q := seg[j]
					if r%2 == 1 {
						q = seg[len(seg)-1-j]
					}
					if m := len(ring); m > 0 && ring[m-1] == q {
						continue
					}
					ring = append(ring, q)
				}
			}
		}
		evals++
		if !gvcAssembleOne(t, ring, rnd.Intn(2) == 0) {
			fails++
		}
	}
	fmt.Printf("GVC-DATA %s\n", gvcJSON2(map[string]any{"part": "pseudo-random zig-zag rings of 4..40 vertices over 6 points", "seed": seed, "evaluations": evals}))

	// word rings: a random word of 2..7 letters over 2..4 pixel centres, repeated, reversed and mixed with single
	// letters, 8..47 vertices (the generator that found defect F9: overlapping removal ranges need about 25 vertices)
	n = 600000
	if thorough {
		n = 5000000
	}
	evals = 0
	for i := 0; i < n && fails <= 3; i++ {
		k := 2 + rnd.Intn(3)
		l := 8 + rnd.Intn(40)
		w := make([][2]float64, 2+rnd.Intn(6))
		for j := range w {
			w[j] = pts[rnd.Intn(k)]
		}
		ring := make([][2]float64, 0, l+8)
		for len(ring) < l {
			switch rnd.Intn(4) {
			case 0:
				ring = append(ring, pts[rnd.Intn(k)])
			case 1:
				for j := len(w) - 1; j >= 0; j-- {
					ring = append(ring, w[j])
				}
			default:
				ring = append(ring, w...)
			}
		}
		clean := ring[:1]
		for _, p := range ring[1:] {
			if p != clean[len(clean)-1] {
				clean = append(clean, p)
			}
		}
		evals++
		if !gvcAssembleOne(t, clean, rnd.Intn(2) == 0) {
			fails++
		}
	}
	fmt.Printf("GVC-DATA %s\n", gvcJSON2(map[string]any{"part": "word rings (repeated / reversed random words) of 8..47 vertices over 2..4 points", "seed": seed, "evaluations": evals}))
}

func gvcJSON2(v any) string {
	s := "{"
	first := true
	for _, k := range []string{"part", "alphabet", "max_ring_length", "seed", "evaluations"} {
		if x, ok := v.(map[string]any)[k]; ok {
			if !first {
				s += ","
			}
			first = false
			s += fmt.Sprintf("%q:", k)
			switch y := x.(type) {
			case string:
				s += fmt.Sprintf("%q", y)
			default:
				s += fmt.Sprint(y)
			}
		}
	}
	return s + "}"
}
