package main

// C14, data part (finite, enumerated completely; NOT a proof): every built-in tile matrix set, for every one of its
// tile matrix ids, is either rejected by validateTileMatrixSet with an error or satisfies, checked here independently
// of IsQuadTree: square matrices and tiles, id = key, no variable widths, consecutive keys from 0, common origin and
// corner, same tile size, doubling, root 1x1, tile width a power of two, and
// pixel size = (x span of matrix 0) / 2^(z + log2(tile width) + 4) = cell size of z / 16 within 1e-9 relative.
// Validation must never panic.

import (
	"encoding/json"
	"fmt"
	"math"
	"sort"
	"testing"

	"github.com/pdok/texel/tms20"
)

var gvcEmbedded = []string{"CDB1GlobalGrid", "CanadianNAD83_LCC", "EuropeanETRS89_LAEAQuad", "GNOSISGlobalGrid", "LINZAntarticaMapTilegrid",
	"NZTM2000Quad", "NetherlandsRDNewQuad", "UPSAntarcticWGS84Quad", "UPSArcticWGS84Quad", "UTM31WGS84Quad", "WGS1984Quad", "WebMercatorQuad",
	"WorldCRS84Quad", "WorldMercatorWGS84Quad"}

func TestGvcC14Embedded(t *testing.T) {
	type rec struct {
		Set      string `json:"set"`
		Matrices int    `json:"matrices"`
		Accepted bool   `json:"accepted"`
		Error    string `json:"error,omitempty"`
		Problem  string `json:"problem,omitempty"`
	}
	for _, id := range gvcEmbedded {
		tms, err := tms20.LoadEmbeddedTileMatrixSet(id)
		if err != nil {
			t.Fatalf("load %s: %v", id, err)
		}
		var keys []int
		for k := range tms.TileMatrices {
			keys = append(keys, k)
		}
		sort.Ints(keys)
		r := rec{Set: id, Matrices: len(keys)}
		var verdict error
		panicked := ""
		for _, k := range keys {
			func() {
				defer func() {
					if p := recover(); p != nil {
						panicked = fmt.Sprintf("id %d: %v", k, p)
					}
				}()
				e := validateTileMatrixSet(tms, []tms20.TMID{k})
				if k == keys[0] {
					verdict = e
				} else if (e == nil) != (verdict == nil) {
					r.Problem = fmt.Sprintf("verdict depends on the requested id (%d)", k)
				}
			}()
		}
		if panicked != "" {
			r.Problem = "validation panicked: " + panicked
		}
		r.Accepted = verdict == nil && panicked == ""
		if verdict != nil {
			r.Error = verdict.Error()
		}
		if r.Accepted && r.Problem == "" {
			r.Problem = gvcCheckQuadTree(tms, keys)
		}
		b, _ := json.Marshal(r)
		fmt.Printf("GVC-DATA %s\n", b)
		if r.Problem != "" {
			t.Errorf("%s: %s", id, r.Problem)
		}
	}
}

func gvcCheckQuadTree(tms tms20.TileMatrixSet, keys []int) string {
	root, ok := tms.TileMatrices[0]
	if !ok || keys[0] != 0 {
		return "accepted without tile matrix 0"
	}
	if root.MatrixWidth != 1 || root.MatrixHeight != 1 {
		return "accepted, but the root matrix is not 1x1"
	}
	lt := math.Log2(float64(root.TileWidth))
	if lt != math.Floor(lt) {
		return "accepted, but the tile width is not a power of two"
	}
	bl, tr, err := tms.MatrixBoundingBox(0)
	if err != nil {
		return "bounding box: " + err.Error()
	}
	span := tr[0] - bl[0]
	for i, k := range keys {
		tm := tms.TileMatrices[k]
		if k != i {
			return fmt.Sprintf("keys are not consecutive from 0 at %d", k)
		}
		if tm.ID != fmt.Sprint(k) || tm.MatrixWidth != tm.MatrixHeight || tm.TileWidth != tm.TileHeight || len(tm.VariableMatrixWidths) != 0 {
			return fmt.Sprintf("matrix %d is not square / has a wrong id / has variable widths", k)
		}
		if i > 0 {
			p := tms.TileMatrices[k-1]
			if *tm.PointOfOrigin != *p.PointOfOrigin || tm.CornerOfOrigin != p.CornerOfOrigin || tm.TileWidth != p.TileWidth || tm.MatrixWidth != 2*p.MatrixWidth {
				return fmt.Sprintf("matrix %d does not double matrix %d", k, k-1)
			}
		}
		level := float64(k) + lt + 4
		pixel := span / math.Pow(2, level)
		want := tm.CellSize / 16
		// the documents print cell sizes with 9 to 11 decimals: equality is up to that rounding (1e-9 absolute on the
		// cell size, i.e. 6.25e-11 on the pixel) or 1e-9 relative, whichever is looser
		if math.Abs(pixel-want) > 1e-9*want && math.Abs(16*pixel-tm.CellSize) > 1e-9 {
			return fmt.Sprintf("matrix %d: pixel size %v differs from cell size / 16 = %v", k, pixel, want)
		}
	}
	return ""
}
