package snap

// Bounded stand-in (NOT a proof) for the part of C06 that is outside the verifier's reach: the ring assembly
// (cleanupNewRing = kmpDeduplicate + splitRing, dedupeInnersOuters, matchInnersToPolygons, RemoveSequences) and the
// guard "no points found" of cleanupNewVertices. The real SnapPolygon is run on
//   (a) every vertex sequence of length 1..L over the 3x3 lattice of pixel centres and pixel corners of a tiny grid,
//       as a single ring, for all four flag combinations (keep points and lines, reverse winding order);
//   (b) random polygons with a hole over the same lattice;
// on the levels {deepest}, {deepest-1, deepest} of a 4x4 / 8x8 pixel grid. A panic or a run that exceeds the per-input
// time limit fails the test and names the input. The bound is stated in the evidence; nothing here counts as proved.

import (
	"encoding/json"
	"fmt"
	"io"
	"log"
	"math/rand"
	"os"
	"strconv"
	"testing"
	"time"

	"github.com/go-spatial/geom"
	"github.com/pdok/texel/tms20"
)

type gvcCRS struct{}

func (gvcCRS) Description() string { return "" }
func (gvcCRS) Authority() string   { return "" }
func (gvcCRS) Version() string     { return "" }
func (gvcCRS) Code() string        { return "" }

// gvcTinyTMS: tile matrices 0..deepest, 1x1 tile of 1x1 "pixels" (so that the internal grid has 16 * 2^id pixels per axis)
func gvcTinyTMS(deepest int, cellSize float64) tms20.TileMatrixSet {
	origin := tms20.TwoDPoint([2]float64{0, 0})
	t := tms20.TileMatrixSet{CRS: gvcCRS{}, OrderedAxes: []string{"X", "Y"}, TileMatrices: map[tms20.TMID]tms20.TileMatrix{}}
	for id := 0; id <= deepest; id++ {
		cs := cellSize * float64(uint(1)<<uint(deepest-id))
		t.TileMatrices[id] = tms20.TileMatrix{ID: strconv.Itoa(id), ScaleDenominator: cs / tms20.StandardizedRenderingPixelSize, CellSize: cs,
			CornerOfOrigin: tms20.BottomLeft, PointOfOrigin: &origin, TileWidth: 1, TileHeight: 1, MatrixWidth: 1, MatrixHeight: 1}
	}
	return t
}

func gvcRunOne(t *testing.T, poly geom.Polygon, tms tms20.TileMatrixSet, ids []tms20.TMID, cfg Config, limit time.Duration) (ok bool) {
	done := make(chan any, 1)
	go func() {
		defer func() { done <- recover() }()
		SnapPolygon(poly, tms, ids, cfg)
	}()
	select {
	case r := <-done:
		if r != nil {
			t.Errorf("GVC-FAIL panic %v on polygon %v ids %v config %+v", r, poly, ids, cfg)
			return false
		}
		return true
	case <-time.After(limit):
		t.Errorf("GVC-FAIL no result within %v on polygon %v ids %v config %+v", limit, poly, ids, cfg)
		return false
	}
}

func TestGvcC06TotalSmall(t *testing.T) {
	log.SetOutput(io.Discard)
	defer log.SetOutput(os.Stderr)
	thorough := os.Getenv("VERIF_TIER") == "thorough"
	seed, _ := strconv.Atoi(os.Getenv("VERIF_SEED"))
	maxLen := 5
	nRandom := 20000
	if thorough {
		maxLen = 6
		nRandom = 300000
	}
	// grid: deepest id 0 -> 16 pixels per axis of size 1/16 when cell size is 1; the polygon lives in [0,1)^2.
	// lattice: 3x3 points spaced so that they mix pixel centres, pixel corners and points on pixel borders
	var lattice [][2]float64
	for _, x := range []float64{0.03125, 0.0625, 0.15625} {
		for _, y := range []float64{0.03125, 0.0625, 0.15625} {
			lattice = append(lattice, [2]float64{x, y})
		}
	}
	tms0 := gvcTinyTMS(1, 1.0)
	idSets := [][]tms20.TMID{{1}, {0, 1}, {0}}
	cfgs := []Config{{}, {KeepPointsAndLines: true}, {ReverseWindingOrder: true}, {KeepPointsAndLines: true, ReverseWindingOrder: true}}
	evals := 0
	fails := 0
	var rec func(prefix [][2]float64)
	rec = func(prefix [][2]float64) {
		if fails > 3 {
			return
		}
		if len(prefix) >= 1 {
			ring := append([][2]float64{}, prefix...)
			for _, ids := range idSets {
				for ci, cfg := range cfgs {
					if len(prefix) == maxLen && ci > 1 { // the longest rings only with two of the four configurations
						continue
					}
					evals++
					if !gvcRunOne(t, geom.Polygon{ring}, tms0, ids, cfg, 5*time.Second) {
						fails++
					}
				}
			}
		}
		if len(prefix) == maxLen {
			return
		}
		for _, p := range lattice {
			rec(append(prefix, p))
		}
	}
	rec(nil)
	fmt.Printf("GVC-DATA %s\n", gvcJSON(map[string]any{"part": "all single rings over a 3x3 lattice", "max_ring_length": maxLen, "evaluations": evals}))

	rnd := rand.New(rand.NewSource(int64(seed) + 1))
	evals2 := 0
	for i := 0; i < nRandom && fails <= 3; i++ {
		var poly geom.Polygon
		nr := 1 + rnd.Intn(3)
		for r := 0; r < nr; r++ {
			n := rnd.Intn(12)
			ring := make([][2]float64, n)
			for k := range ring {
				switch rnd.Intn(3) {
				case 0:
					ring[k] = lattice[rnd.Intn(len(lattice))]
				case 1:
					ring[k] = [2]float64{float64(rnd.Intn(64)) / 64, float64(rnd.Intn(64)) / 64}
				default:
					ring[k] = [2]float64{rnd.Float64() * 0.999, rnd.Float64() * 0.999}
				}
			}
			poly = append(poly, ring)
		}
		evals2++
		if !gvcRunOne(t, poly, tms0, idSets[rnd.Intn(len(idSets))], cfgs[rnd.Intn(len(cfgs))], 5*time.Second) {
			fails++
		}
	}
	fmt.Printf("GVC-DATA %s\n", gvcJSON(map[string]any{"part": "random polygons with up to 3 rings of up to 11 vertices", "seed": seed, "evaluations": evals2}))
}

func gvcJSON(v any) string {
	b, _ := json.Marshal(v)
	return string(b)
}
