package snap

// Bounded stand-in (NOT a proof) for the second sentence of C08, which relates two executions and is outside what
// per-call contracts decide: on a round dyadic grid the geometry returned for a tile matrix is the same whether it is
// requested alone or together with the other one. The real SnapPolygon is run on every single ring of 3..L vertices
// over a 3x3 lattice (L = 5 quick / 6 thorough) and on random polygons with holes over a 6x6 lattice, for the id sets
// {0}, {1}, {0,1} and all four flag combinations; result[id] must be deeply equal across the id sets.

import (
	"fmt"
	"io"
	"log"
	"math/rand"
	"os"
	"reflect"
	"strconv"
	"testing"

	"github.com/go-spatial/geom"
	"github.com/pdok/texel/tms20"
)

type gvcC08CRS struct{}

func (gvcC08CRS) Description() string { return "" }
func (gvcC08CRS) Authority() string   { return "" }
func (gvcC08CRS) Version() string     { return "" }
func (gvcC08CRS) Code() string        { return "" }

func gvcC08One(t *testing.T, poly geom.Polygon, tms tms20.TileMatrixSet, cfg Config) bool {
	run := func(ids []tms20.TMID) (res map[tms20.TMID][]geom.Polygon, ok bool) {
		defer func() {
			if r := recover(); r != nil {
				ok = false // panics are C06's business
			}
		}()
		return SnapPolygon(poly, tms, ids, cfg), true
	}
	both, ok := run([]tms20.TMID{0, 1})
	if !ok {
		return true
	}
	for _, id := range []tms20.TMID{0, 1} {
		alone, ok := run([]tms20.TMID{id})
		if !ok {
			return true
		}
		a, inA := alone[id]
		b, inB := both[id]
		if inA != inB || !reflect.DeepEqual(a, b) {
			t.Errorf("GVC-FAIL tile matrix %d alone gives %v, together with the other one %v: polygon %v config %+v", id, a, b, poly, cfg)
			return false
		}
		for k := range alone {
			if k != id {
				t.Errorf("GVC-FAIL result keyed by %d which was not requested (%d alone): polygon %v", k, id, poly)
				return false
			}
		}
	}
	return true
}

func TestGvcC08Independence(t *testing.T) {
	log.SetOutput(io.Discard)
	defer log.SetOutput(os.Stderr)
	thorough := os.Getenv("VERIF_TIER") == "thorough"
	seed, _ := strconv.Atoi(os.Getenv("VERIF_SEED"))
	origin := tms20.TwoDPoint([2]float64{0, 0})
	tms := tms20.TileMatrixSet{CRS: gvcC08CRS{}, OrderedAxes: []string{"X", "Y"}, TileMatrices: map[tms20.TMID]tms20.TileMatrix{}}
	for id := 0; id <= 1; id++ {
		cs := float64(uint(1) << uint(1-id))
		tms.TileMatrices[id] = tms20.TileMatrix{ID: strconv.Itoa(id), ScaleDenominator: cs / tms20.StandardizedRenderingPixelSize, CellSize: cs,
			CornerOfOrigin: tms20.BottomLeft, PointOfOrigin: &origin, TileWidth: 1, TileHeight: 1, MatrixWidth: 1, MatrixHeight: 1}
	}
	// points that are NOT all pixel centres: centres, corners and off-centre points of the finer grid (pixel 1/16)
	var lattice [][2]float64
	for _, x := range []float64{0.03125, 0.125, 0.41} {
		for _, y := range []float64{0.03125, 0.1875, 0.33} {
			lattice = append(lattice, [2]float64{x, y})
		}
	}
	cfgs := []Config{{}, {KeepPointsAndLines: true}, {ReverseWindingOrder: true}, {KeepPointsAndLines: true, ReverseWindingOrder: true}}
	maxLen := 5
	nRandom := 30000
	if thorough {
		maxLen = 6
		nRandom = 400000
	}
	fails, evals := 0, 0
	ring := make([][2]float64, 0, maxLen)
	var rec func()
	rec = func() {
		if fails > 3 {
			return
		}
		if len(ring) >= 3 {
			for ci, cfg := range cfgs {
				if len(ring) == maxLen && ci > 1 {
					continue
				}
				evals++
				if !gvcC08One(t, geom.Polygon{append([][2]float64{}, ring...)}, tms, cfg) {
					fails++
				}
			}
		}
		if len(ring) == maxLen {
			return
		}
		for _, p := range lattice {
			if n := len(ring); n > 0 && ring[n-1] == p {
				continue
			}
			ring = append(ring, p)
			rec()
			ring = ring[:len(ring)-1]
		}
	}
	rec()
	fmt.Printf("GVC-DATA {\"part\":\"every single ring over a 3x3 lattice, alone vs together\",\"max_ring_length\":%d,\"evaluations\":%d}\n", maxLen, evals)
	rnd := rand.New(rand.NewSource(int64(seed) + 13))
	evals2 := 0
	for i := 0; i < nRandom && fails <= 3; i++ {
		var poly geom.Polygon
		nr := 1 + rnd.Intn(3)
		for r := 0; r < nr; r++ {
			n := 3 + rnd.Intn(8)
			rg := make([][2]float64, n)
			for k := range rg {
				rg[k] = [2]float64{float64(rnd.Intn(96)) / 64, float64(rnd.Intn(96)) / 64}
			}
			poly = append(poly, rg)
		}
		evals2++
		if !gvcC08One(t, poly, tms, cfgs[rnd.Intn(4)]) {
			fails++
		}
	}
	fmt.Printf("GVC-DATA {\"part\":\"random polygons of 1..3 rings over a 96x96 lattice, alone vs together\",\"seed\":%d,\"evaluations\":%d}\n", seed, evals2)
}
