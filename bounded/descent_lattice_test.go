package pointindex

// Bounded stand-in (NOT a proof) for the quadtree descent and the order of travel (C02, C03, C08):
// SnapClosestPoints on a 4x4 pixel grid (deepest level 2, pixel = 4 units), every segment with endpoints on the
// quarter-pixel lattice (17x17 points, 83521 segments) for the full hot set, and a sample of segments for random hot
// sets, for several combinations of requested levels; compared with an oracle that decides "closed segment meets
// half-open pixel" with exact rationals and orders the met pixels by the parameter at which the segment enters them.

import (
	"fmt"
	"math/big"
	"math/rand"
	"os"
	"sort"
	"strconv"
	"testing"

	"github.com/go-spatial/geom"
	"github.com/pdok/texel/intgeom"
)

const gvcUnit = 10000000000 // one CRS unit in internal units; the grid is 16 x 16 units, a deepest pixel 4 units

func gvcNewIndex() *PointIndex {
	ext := intgeom.Extent{0, 0, 16 * gvcUnit, 16 * gvcUnit}
	ix := &PointIndex{
		Quadrant:     Quadrant{intExtent: ext},
		deepestLevel: 2,
		deepestSize:  4,
		deepestRes:   4 * gvcUnit,
		quadrants:    make(map[Level]map[uint]Quadrant),
		hitOnce:      make(map[uint]map[intgeom.Point][]int),
		hitMultiple:  make(map[uint]map[intgeom.Point][]int),
	}
	_, ix.intCentroid = ix.getQuadrantExtentAndCentroid(0, 0, 0, ext)
	return ix
}

type gvcMet struct {
	cx, cy   float64
	tlo, thi *big.Rat
}

// gvcClip: parameter interval of the closed segment inside the half-open box, exact; ok=false if empty
func gvcClip(l intgeom.Line, e intgeom.Extent) (lo, hi *big.Rat, ok bool) {
	lo, hi = big.NewRat(0, 1), big.NewRat(1, 1)
	loC, hiC := true, true
	for ax := 0; ax < 2; ax++ {
		p, q := l[0][ax], l[1][ax]
		d := q - p
		mn, mx := e[ax], e[ax+2]
		if d == 0 {
			if p < mn || p >= mx {
				return nil, nil, false
			}
			continue
		}
		tMin, tMax := big.NewRat(mn-p, d), big.NewRat(mx-p, d)
		var l2, h2 *big.Rat
		var l2c, h2c bool
		if d > 0 {
			l2, l2c, h2, h2c = tMin, true, tMax, false
		} else {
			l2, l2c, h2, h2c = tMax, false, tMin, true
		}
		if c := l2.Cmp(lo); c > 0 || c == 0 && !l2c {
			lo, loC = l2, l2c
		}
		if c := h2.Cmp(hi); c < 0 || c == 0 && !h2c {
			hi, hiC = h2, h2c
		}
	}
	c := lo.Cmp(hi)
	return lo, hi, c < 0 || c == 0 && loC && hiC
}

func gvcOracle(hot [16]bool, l intgeom.Line, level uint) [][2]float64 {
	n := 1 << level            // pixels per axis at this level
	span := int64(16/n) * gvcUnit // pixel size at this level
	var met []gvcMet
	for py := 0; py < n; py++ {
		for px := 0; px < n; px++ {
			occupied := false
			f := 4 / n
			for dy := 0; dy < f; dy++ {
				for dx := 0; dx < f; dx++ {
					if hot[(py*f+dy)*4+px*f+dx] {
						occupied = true
					}
				}
			}
			if !occupied {
				continue
			}
			e := intgeom.Extent{int64(px) * span, int64(py) * span, int64(px+1) * span, int64(py+1) * span}
			if lo, hi, ok := gvcClip(l, e); ok {
				met = append(met, gvcMet{float64(int64(px)*span+span/2) / gvcUnit, float64(int64(py)*span+span/2) / gvcUnit, lo, hi})
			}
		}
	}
	sort.SliceStable(met, func(i, j int) bool {
		if c := met[i].tlo.Cmp(met[j].tlo); c != 0 {
			return c < 0
		}
		return met[i].thi.Cmp(met[j].thi) < 0
	})
	var out [][2]float64
	for _, m := range met {
		out = append(out, [2]float64{m.cx, m.cy})
	}
	return out
}

func TestGvcDescentLattice(t *testing.T) {
	seed, _ := strconv.ParseInt(os.Getenv("VERIF_SEED"), 10, 64)
	rng := rand.New(rand.NewSource(seed + 1))
	thorough := os.Getenv("VERIF_TIER") == "thorough"
	levelSets := [][]uint{{2}, {1}, {0, 2}, {0, 1, 2}, {1, 2}, {0}}
	var hotSets [][16]bool
	var all [16]bool
	for i := range all {
		all[i] = true
	}
	hotSets = append(hotSets, all)
	nRandom := 6
	if thorough {
		nRandom = 60
	}
	for k := 0; k < nRandom; k++ {
		var h [16]bool
		for i := range h {
			h[i] = rng.Intn(3) != 0
		}
		hotSets = append(hotSets, h)
	}
	total, bad, orderOnly := 0, 0, 0
	first := ""
	for hi, hot := range hotSets {
		ix := gvcNewIndex()
		anyHot := false
		for i, h := range hot {
			if h {
				anyHot = true
				if err := ix.InsertCoord(i%4, i/4); err != nil {
					t.Fatal(err)
				}
			}
		}
		if !anyHot {
			continue
		}
		step := 1
		if hi > 0 && !thorough {
			step = 3 // a sub-lattice for the random hot sets in the quick tier
		}
		for x1 := 0; x1 <= 16; x1 += step {
			for y1 := 0; y1 <= 16; y1 += step {
				for x2 := 0; x2 <= 16; x2 += step {
					for y2 := 0; y2 <= 16; y2 += step {
						il := intgeom.Line{{int64(x1) * gvcUnit, int64(y1) * gvcUnit}, {int64(x2) * gvcUnit, int64(y2) * gvcUnit}}
						ls := levelSets[(x1+y1*3+x2*5+y2*7+hi)%len(levelSets)]
						levelMap := map[Level]any{}
						for _, lv := range ls {
							levelMap[lv] = struct{}{}
						}
						got := ix.SnapClosestPoints(geom.Line{{float64(x1), float64(y1)}, {float64(x2), float64(y2)}}, levelMap, 0)
						for _, lv := range ls {
							total++
							want := gvcOracle(hot, il, lv)
							g := got[lv]
							if fmt.Sprint(g) != fmt.Sprint(want) {
								bad++
								gs, ws := append([][2]float64(nil), g...), append([][2]float64(nil), want...)
								less := func(s [][2]float64) func(i, j int) bool {
									return func(i, j int) bool { return s[i][0] < s[j][0] || s[i][0] == s[j][0] && s[i][1] < s[j][1] }
								}
								sort.Slice(gs, less(gs))
								sort.Slice(ws, less(ws))
								if fmt.Sprint(gs) == fmt.Sprint(ws) {
									orderOnly++
								}
								if first == "" {
									first = fmt.Sprintf("hot=%v segment (%d,%d)-(%d,%d) levels %v level %d: got %v want %v", hot, x1, y1, x2, y2, ls, lv, g, want)
								}
							}
						}
					}
				}
			}
		}
	}
	fmt.Printf("GVC-DATA {\"evaluations\": %d, \"mismatches\": %d, \"order_only\": %d, \"hot_sets\": %d, \"what\": \"SnapClosestPoints per level vs exact oracle incl. order of travel\"}\n", total, bad, orderOnly, len(hotSets))
	if bad > 0 {
		t.Errorf("%d of %d level results differ from the oracle (%d differ in order only); first: %s", bad, total, orderOnly, first)
	}
}
