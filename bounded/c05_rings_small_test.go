package snap

// Bounded stand-in (NOT a proof) for the ring clauses of C05, which live in the ring assembly and are outside the
// verifier's reach: the real SnapPolygon on every single ring of 3..L vertices over a 3x3 lattice of pixel centres
// (L = 5 quick / 6 thorough) and on random polygons with holes over a 6x6 lattice, for all four flag combinations,
// on the levels {1}, {0,1}. Checked on every returned polygon: a ring with non-zero area is counter-clockwise as
// shell and clockwise as hole (the opposite with ReverseWindingOrder); no ring repeats its first vertex at the end,
// has two equal consecutive vertices, or visits a vertex twice; without KeepPointsAndLines every ring has at least
// three vertices; with it, every id present without it carries the same polygons first, followed only by one- or
// two-vertex rings. That grid is dyadic (pixel 1/16), so float <-> integer conversions are exact there. A last part
// runs spiky rings on two built-in grids with non-dyadic pixel centres (the domain of defect F4) for the clauses that
// can be decided exactly on floats.

import (
	"fmt"
	"io"
	"log"
	"math/rand"
	"os"
	"reflect"
	"strconv"
	"testing"

	"github.com/go-spatial/geom"
	"github.com/pdok/texel/tms20"
)

type gvcC05CRS struct{}

func (gvcC05CRS) Description() string { return "" }
func (gvcC05CRS) Authority() string   { return "" }
func (gvcC05CRS) Version() string     { return "" }
func (gvcC05CRS) Code() string        { return "" }

func gvcC05TMS() tms20.TileMatrixSet {
	origin := tms20.TwoDPoint([2]float64{0, 0})
	t := tms20.TileMatrixSet{CRS: gvcC05CRS{}, OrderedAxes: []string{"X", "Y"}, TileMatrices: map[tms20.TMID]tms20.TileMatrix{}}
	for id := 0; id <= 1; id++ {
		cs := float64(uint(1) << uint(1-id))
		t.TileMatrices[id] = tms20.TileMatrix{ID: strconv.Itoa(id), ScaleDenominator: cs / tms20.StandardizedRenderingPixelSize, CellSize: cs,
			CornerOfOrigin: tms20.BottomLeft, PointOfOrigin: &origin, TileWidth: 1, TileHeight: 1, MatrixWidth: 1, MatrixHeight: 1}
	}
	return t
}

func gvcSignedArea2(r [][2]float64) float64 {
	s := 0.0
	for i := range r {
		j := (i + 1) % len(r)
		s += r[i][0]*r[j][1] - r[j][0]*r[i][1]
	}
	return s
}

// gvcRingProblems: the clauses of C05 that can be read off one polygon
func gvcRingProblems(p geom.Polygon, cfg Config, allowSmall bool) string {
	for ri, ring := range p {
		n := len(ring)
		if n == 0 {
			return fmt.Sprintf("ring %d is empty", ri)
		}
		if n < 3 && !allowSmall {
			return fmt.Sprintf("ring %d has %d vertices without KeepPointsAndLines", ri, n)
		}
		if n > 1 && ring[0] == ring[n-1] {
			return fmt.Sprintf("ring %d repeats its first vertex at the end", ri)
		}
		seen := map[[2]float64]bool{}
		for i, v := range ring {
			if n > 1 && v == ring[(i+1)%n] {
				return fmt.Sprintf("ring %d has two equal consecutive vertices at %d", ri, i)
			}
			if seen[v] {
				return fmt.Sprintf("ring %d visits %v twice", ri, v)
			}
			seen[v] = true
		}
		if n >= 3 {
			a := gvcSignedArea2(ring)
			wantCCW := ri == 0
			if cfg.ReverseWindingOrder {
				wantCCW = !wantCCW
			}
			if a != 0 && (a > 0) != wantCCW {
				return fmt.Sprintf("ring %d (shell=%v) has the wrong orientation (twice the signed area %v, reverse=%v)", ri, ri == 0, a, cfg.ReverseWindingOrder)
			}
		}
	}
	return ""
}

func gvcC05One(t *testing.T, poly geom.Polygon, tms tms20.TileMatrixSet, ids []tms20.TMID, reverse bool) bool {
	var res [2]map[tms20.TMID][]geom.Polygon
	for k, keep := range []bool{false, true} {
		cfg := Config{KeepPointsAndLines: keep, ReverseWindingOrder: reverse}
		func() {
			defer func() {
				if r := recover(); r != nil {
					res[k] = nil // panics are C06's business, not this stand-in's
				}
			}()
			res[k] = SnapPolygon(poly, tms, ids, cfg)
		}()
		if res[k] == nil {
			return true
		}
		for id, polys := range res[k] {
			if len(polys) == 0 {
				t.Errorf("GVC-FAIL id %d mapped to an empty list: polygon %v ids %v keep=%v reverse=%v", id, poly, ids, keep, reverse)
				return false
			}
			for pi, p := range polys {
				small := keep // with keep, collapsed parts come as separate small rings
				if msg := gvcRingProblems(p, cfg, small); msg != "" {
					t.Errorf("GVC-FAIL %s: result[%d][%d] = %v for polygon %v ids %v keep=%v reverse=%v", msg, id, pi, p, poly, ids, keep, reverse)
					return false
				}
			}
		}
	}
	// keep vs no keep
	for id, without := range res[0] {
		with, ok := res[1][id]
		if !ok || len(with) < len(without) || !reflect.DeepEqual(with[:len(without)], without) {
			t.Errorf("GVC-FAIL with KeepPointsAndLines id %d does not start with the polygons it has without: %v vs %v (polygon %v ids %v reverse=%v)", id, with, without, poly, ids, reverse)
			return false
		}
		for _, extra := range with[len(without):] {
			if len(extra) != 1 || len(extra[0]) < 1 || len(extra[0]) > 2 {
				t.Errorf("GVC-FAIL with KeepPointsAndLines the extra part %v of id %d is not a single ring of one or two vertices (polygon %v ids %v reverse=%v)", extra, id, poly, ids, reverse)
				return false
			}
		}
	}
	return true
}

func TestGvcC05RingsSmall(t *testing.T) {
	log.SetOutput(io.Discard)
	defer log.SetOutput(os.Stderr)
	thorough := os.Getenv("VERIF_TIER") == "thorough"
	seed, _ := strconv.Atoi(os.Getenv("VERIF_SEED"))
	tms := gvcC05TMS()
	// extent [0,2)^2, 32 pixels of 1/16 on id 1, 16 pixels of 1/8 on id 0; lattice points are centres of id-1 pixels
	c := func(i int) float64 { return (float64(i) + 0.5) / 16 }
	var lattice [][2]float64
	for _, x := range []int{1, 3, 6} {
		for _, y := range []int{1, 3, 6} {
			lattice = append(lattice, [2]float64{c(x), c(y)})
		}
	}
	idSets := [][]tms20.TMID{{1}, {0, 1}}
	maxLen := 5
	nRandom := 30000
	if thorough {
		maxLen = 6
		nRandom = 400000
	}
	fails, evals := 0, 0
	ring := make([][2]float64, 0, maxLen)
	var rec func()
	rec = func() {
		if fails > 3 {
			return
		}
		if len(ring) >= 3 {
			for _, ids := range idSets {
				for _, rev := range []bool{false, true} {
					evals++
					if !gvcC05One(t, geom.Polygon{append([][2]float64{}, ring...)}, tms, ids, rev) {
						fails++
					}
				}
			}
		}
		if len(ring) == maxLen {
			return
		}
		for _, p := range lattice {
			if n := len(ring); n > 0 && ring[n-1] == p {
				continue
			}
			ring = append(ring, p)
			rec()
			ring = ring[:len(ring)-1]
		}
	}
	rec()
	fmt.Printf("GVC-DATA {\"part\":\"every single ring over a 3x3 lattice\",\"max_ring_length\":%d,\"evaluations\":%d}\n", maxLen, evals)
	rnd := rand.New(rand.NewSource(int64(seed) + 11))
	evals2 := 0
	for i := 0; i < nRandom && fails <= 3; i++ {
		var poly geom.Polygon
		nr := 1 + rnd.Intn(3)
		for r := 0; r < nr; r++ {
			n := 3 + rnd.Intn(8)
			rg := make([][2]float64, n)
			for k := range rg {
				rg[k] = [2]float64{c(2 * rnd.Intn(6)), c(2 * rnd.Intn(6))}
			}
			poly = append(poly, rg)
		}
		evals2++
		if !gvcC05One(t, poly, tms, idSets[rnd.Intn(2)], rnd.Intn(2) == 0) {
			fails++
		}
	}
	fmt.Printf("GVC-DATA {\"part\":\"random polygons of 1..3 rings of 3..10 vertices over a 6x6 lattice\",\"seed\":%d,\"evaluations\":%d}\n", seed, evals2)

	// built-in grids whose pixel centres are not dyadic (the domain of defect F4): spiky rings that revisit vertices,
	// around a point of NetherlandsRDNewQuad (id 14) and of WebMercatorQuad (id 17). Only the clauses that can be
	// decided exactly on floats are checked here (no vertex twice, no equal neighbours, no repeated closing vertex, at
	// least three vertices, no empty list); orientation is left to the dyadic part (a float shoelace at these
	// magnitudes is not a reliable oracle).
	nReal := 4000
	if thorough {
		nReal = 60000
	}
	for _, g := range []struct {
		name         string
		id           int
		cx, cy, step float64
	}{{"NetherlandsRDNewQuad", 14, 20000, 380000, 0.2}, {"WebMercatorQuad", 17, 550000, 6850000, 0.3}} {
		rtms, err := tms20.LoadEmbeddedTileMatrixSet(g.name)
		if err != nil {
			t.Fatal(err)
		}
		evals3 := 0
		for i := 0; i < nReal && fails <= 3; i++ {
			k := 4 + rnd.Intn(8)
			rg := make([][2]float64, k)
			for j := range rg {
				rg[j] = [2]float64{g.cx + g.step*float64(rnd.Intn(8)), g.cy + g.step*float64(rnd.Intn(8))}
			}
			evals3++
			func() {
				defer func() { _ = recover() }() // panics are C06's business
				res := SnapPolygon(geom.Polygon{rg}, rtms, []tms20.TMID{g.id}, Config{})
				for id, polys := range res {
					if len(polys) == 0 {
						t.Errorf("GVC-FAIL id %d mapped to an empty list: polygon %v on %s", id, rg, g.name)
						fails++
						return
					}
					for _, p := range polys {
						for ri, r := range p {
							n := len(r)
							seen := map[[2]float64]bool{}
							for vi, v := range r {
								if n < 3 || seen[v] || (n > 1 && v == r[(vi+1)%n]) {
									t.Errorf("GVC-FAIL ring %d of a polygon for id %d on %s has fewer than three vertices, equal neighbours or visits %v twice: %v for polygon %v", ri, id, g.name, v, r, rg)
									fails++
									return
								}
								seen[v] = true
							}
						}
					}
				}
			}()
		}
		fmt.Printf("GVC-DATA {\"part\":\"spiky rings on %s id %d (exact clauses only)\",\"seed\":%d,\"evaluations\":%d}\n", g.name, g.id, seed, evals3)
	}
}
